// Design-phase probe: process_references body after R2 (async block lifted) and R10 (monomorphised).
use vstd::prelude::*;
use vstd::future::*;
use std::sync::atomic::{AtomicU32, AtomicBool};
use std::sync::Arc;
verus! {

pub struct World {
    pub counter: int,
    pub written: Set<int>,          // ids that reached a protected file
    pub lock: Option<u32>,
    pub use_cache: bool,
    pub stop_seen: bool,            // some poll of the stop flag returned true
}

pub mod task {
    use vstd::prelude::*;
    use vstd::future::*;
    #[verifier::external_body]
    pub fn block_on<F: core::future::Future>(f: F) -> (r: F::Output)
        ensures f.awaited(), r == f@
    { unimplemented!() }
}

pub struct InsertReferencesResult { pub failure: bool, pub num_inserted_references: usize }
pub struct CodeFile { pub path: String }
pub struct CodeFinder { pub code_files: Vec<CodeFile> }

// the stop flag is an AtomicBool whose load is nondeterministic in vstd: a stop request at any poll
pub proof fn axiom_stop_poll(tracked w: &mut World, v: bool)
    ensures final(w).stop_seen == (old(w).stop_seen || v),
        final(w).counter == old(w).counter, final(w).written == old(w).written, final(w).lock == old(w).lock, final(w).use_cache == old(w).use_cache
{ admit(); }

pub struct InsertReferencesProcessor {}
impl InsertReferencesProcessor {
    // stands for the contract established in insert_map_probe.rs
    #[verifier::external_body]
    pub async fn map(path: &str, params: &Option<Arc<AtomicU32>>, Tracked(w): Tracked<&mut World>) -> (r: Option<InsertReferencesResult>)
        ensures
            r.is_some(),
            old(w).counter <= final(w).counter,
            forall|i: int| final(w).written.contains(i) ==> old(w).written.contains(i) || old(w).counter <= i < final(w).counter,
            !r.unwrap().failure ==> final(w).counter == old(w).counter + r.unwrap().num_inserted_references,
            final(w).lock == old(w).lock, final(w).use_cache == old(w).use_cache, final(w).stop_seen == old(w).stop_seen,
    { unimplemented!() }

    pub fn reduce(map_results: &[InsertReferencesResult]) -> (r: Option<InsertReferencesResult>)
        ensures r.is_some(),
            r.unwrap().failure == exists|i: int| 0 <= i < map_results@.len() && map_results@[i].failure,
    {
        let mut insert_count: usize = 0;
        let mut reduce_failure: bool = false;

        for map_result in it: map_results.iter()
            invariant reduce_failure == exists|i: int| 0 <= i < it.index@ && map_results@[i].failure, 0 <= it.index@ <= map_results@.len(),
        {
            insert_count = insert_count.wrapping_add(map_result.num_inserted_references); // PROBE ONLY (real: `+=`, needs Σ bound)
            reduce_failure = reduce_failure || map_result.failure;                        // R11 (real: `|=`)
        }

        Some(InsertReferencesResult {
            failure: reduce_failure,
            num_inserted_references: insert_count,
        })
    }
}

async fn process_references_blk(stop_flag: Arc<AtomicBool>, finder: &CodeFinder, params: Option<Arc<AtomicU32>>, Tracked(w): Tracked<&mut World>) -> (r: Option<InsertReferencesResult>)
    ensures
        old(w).counter <= final(w).counter,
        forall|i: int| final(w).written.contains(i) ==> old(w).written.contains(i) || old(w).counter <= i < final(w).counter,
        final(w).lock == old(w).lock, final(w).use_cache == old(w).use_cache,
        r.is_none() ==> final(w).stop_seen,
{
        let mut all_map_results = Vec::new();

        for file in it: finder.code_files.iter()
            invariant
                old(w).counter <= w.counter,
                forall|i: int| w.written.contains(i) ==> old(w).written.contains(i) || old(w).counter <= i < w.counter,
                w.lock == old(w).lock, w.use_cache == old(w).use_cache,
        {
            let sf = stop_flag.load(std::sync::atomic::Ordering::Relaxed);
            proof { axiom_stop_poll(w, sf); }
            if sf
            {
                return None;
            }

            let path = file.path.clone();
            let params_task_inner = params.clone();

            if let Some(map_result) =
                    InsertReferencesProcessor::map(path.as_str(), &params_task_inner, Tracked(w)).await
            {
                all_map_results.push(map_result);
            }
        }

        let sf2 = stop_flag.load(std::sync::atomic::Ordering::Relaxed);
        proof { axiom_stop_poll(w, sf2); }
        if sf2
        {
            return None;
        }

        InsertReferencesProcessor::reduce(all_map_results.as_slice())
}

}
fn main() {}
