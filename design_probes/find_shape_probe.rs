// Design-phase probe: the shape of rust_log_ref_finder::find over a pest Pair/Pairs shim (R12).
use vstd::prelude::*;
verus! {

#[allow(non_camel_case_types)]
#[derive(Copy, Clone, PartialEq, Eq, Structural)]
pub enum Rule { EOI, file, log_macro, macro_name, macro_args, string_literal, string_value, kvp_args, kvp_key, kvp_value }

pub struct PairG { pub rule: Rule, pub start: int, pub end: int, pub children: Seq<PairG> }

#[verifier::external_body]
pub struct Pair { _p: () }
#[verifier::external_body]
pub struct Pairs { _p: () }

impl Pair {
    pub uninterp spec fn g(&self) -> PairG;
    #[verifier::external_body]
    pub fn as_rule(&self) -> (r: Rule) ensures r == self.g().rule { unimplemented!() }
    #[verifier::external_body]
    pub fn start(&self) -> (r: usize) ensures r == self.g().start { unimplemented!() }
    #[verifier::external_body]
    pub fn into_inner(self) -> (r: Pairs) ensures r.rest() == self.g().children { unimplemented!() }
}
impl Pairs {
    pub uninterp spec fn rest(&self) -> Seq<PairG>;
    #[verifier::external_body]
    pub fn next(&mut self) -> (r: Option<Pair>)
        ensures
            old(self).rest().len() == 0 ==> r.is_none() && final(self).rest() == old(self).rest(),
            old(self).rest().len() > 0 ==> r.is_some() && r.unwrap().g() == old(self).rest()[0] && final(self).rest() == old(self).rest().subrange(1, old(self).rest().len() as int),
    { unimplemented!() }
}

fn find(top: Pair) -> (result: Vec<usize>)
    // grammar shape fact (to be generated from rust_grammar.pest): file = SOI ~ (log_macro | ANY)* ~ EOI
    requires forall|i: int| 0 <= i < top.g().children.len() ==> (#[trigger] top.g().children[i]).rule == Rule::log_macro || top.g().children[i].rule == Rule::EOI,
    ensures result@.len() <= top.g().children.len(),
{
    let mut result = Vec::new();
    let ghost all = top.g().children;
    let mut it = top.into_inner();
    loop
        invariant
            it.rest().len() <= all.len(),
            it.rest() == all.subrange(all.len() - it.rest().len(), all.len() as int),
            result@.len() <= all.len() - it.rest().len(),
            forall|i: int| 0 <= i < all.len() ==> (#[trigger] all[i]).rule == Rule::log_macro || all[i].rule == Rule::EOI,
        decreases it.rest().len()
    {
        let found = match it.next() { Some(f) => f, None => break };
        match found.as_rule()
        {
            Rule::log_macro =>
            {
                let mut inner_rules = found.into_inner();
                let inner_rule = inner_rules.next();
                let pos: usize = match inner_rule
                {
                    None => continue,
                    Some(rule) =>
                    {
                        if rule.as_rule() != Rule::macro_name
                        {
                            continue;
                        }
                        rule.start()
                    },
                };
                result.push(pos);
            },
            Rule::EOI => (),
            _ => unreachable!(),
        }
    }
    result
}
}
fn main() {}
