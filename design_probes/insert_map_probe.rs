// Design-phase probe: hand-woven InsertReferencesProcessor::map (see README.md).
use vstd::prelude::*;
use vstd::string::*;
use std::sync::atomic::AtomicU32;
use std::sync::Arc;
verus! {

pub struct World {
    pub fs: Map<Seq<char>, Seq<u8>>,
    pub counter: int,
    pub issued: Seq<u32>,
}

pub uninterp spec fn utf8(s: Seq<char>) -> Seq<u8>;

pub assume_specification [std::string::String::as_bytes] (s: &std::string::String) -> (b: &[u8])
    ensures b@ == utf8(s@);

// call-site axiom: str::len is the byte length (vstd gives it no functional spec)
pub proof fn axiom_str_len(s: &str, n: usize) ensures n == s.spec_bytes().len() { admit(); }

pub open spec fn is_prefix(a: Seq<u8>, b: Seq<u8>) -> bool { a.len() <= b.len() && b.subrange(0, a.len() as int) == a }

pub mod async_std { pub mod fs {
    use vstd::prelude::*;
    use super::super::World;
    use super::super::is_prefix;
    #[verifier::external_body]
    pub struct File { _p: () }
    #[verifier::external_body]
    pub struct IoError { _p: () }
    impl File {
        pub uninterp spec fn path(&self) -> Seq<char>;
        pub uninterp spec fn accepted(&self) -> Seq<u8>;
        // async-std 1.13 file.rs:846-885: bytes go to an in-memory cache; what is on disk is a prefix
        #[verifier::external_body]
        pub async fn write_all(&mut self, buf: &[u8], Tracked(w): Tracked<&mut World>) -> (r: Result<(), IoError>)
            requires old(w).fs.dom().contains(old(self).path()),
            ensures
                final(self).path() == old(self).path(),
                r.is_ok() ==> final(self).accepted() == old(self).accepted() + buf@,
                final(w).fs.dom() == old(w).fs.dom(),
                forall|p: Seq<char>| p != old(self).path() ==> final(w).fs[p] == old(w).fs[p],
                r.is_ok() ==> is_prefix(final(w).fs[old(self).path()], final(self).accepted()),
                final(w).counter == old(w).counter, final(w).issued == old(w).issued,
        { unimplemented!() }
        #[verifier::external_body]
        pub async fn flush(&mut self, Tracked(w): Tracked<&mut World>) -> (r: Result<(), IoError>)
            requires old(w).fs.dom().contains(old(self).path()),
            ensures
                final(self).path() == old(self).path(), final(self).accepted() == old(self).accepted(),
                final(w).fs.dom() == old(w).fs.dom(),
                forall|p: Seq<char>| p != old(self).path() ==> final(w).fs[p] == old(w).fs[p],
                r.is_ok() ==> final(w).fs[old(self).path()] == final(self).accepted(),
                final(w).counter == old(w).counter, final(w).issued == old(w).issued,
        { unimplemented!() }
    }
    #[verifier::external_body]
    pub async fn rename(from: &str, to: &str, Tracked(w): Tracked<&mut World>) -> (r: Result<(), IoError>)
        requires old(w).fs.dom().contains(from@)
        ensures
            r.is_ok() ==> final(w).fs == old(w).fs.remove(from@).insert(to@, old(w).fs[from@]),
            r.is_err() ==> final(w).fs == old(w).fs,
            final(w).counter == old(w).counter, final(w).issued == old(w).issued,
    { unimplemented!() }
}}

// sequential model of the run's single counter, applied by the weaver after each fetch_add
pub proof fn axiom_fetch_add(tracked w: &mut World, ret: u32, inc: u32)
    ensures
        ret as int == old(w).counter % 0x1_0000_0000,
        final(w).counter == old(w).counter + inc,
        final(w).issued == old(w).issued.push(ret),
        final(w).fs == old(w).fs,
{ admit(); }

#[derive(Copy, Clone, PartialEq, Eq, Structural, Debug)]
pub enum LogRefKind { Unknown, String, StructuredPreExisting, StructuredNew }

#[derive(Copy, Clone)]
pub struct CodePosition { pub character: usize, pub line: usize, pub column: usize }
impl CodePosition {
    pub fn character(&self) -> (r: usize) ensures r == self.character { self.character }
}

pub struct LogRefEntry {
    pub position: CodePosition,
    pub reference: Option<u32>,
    pub _macro_name: String,
    pub kind: LogRefKind,
    pub insertion_prefix: Option<String>,
    pub insertion_suffix: Option<String>,
}

pub uninterp spec fn token_bytes(e: LogRefEntry, id: u32) -> Seq<u8>;

impl LogRefEntry {
    pub fn exists(&self) -> (r: bool) ensures r == self.reference.is_some() { self.reference.is_some() }
    pub fn position(&self) -> (r: &CodePosition) ensures *r == self.position { &self.position }
    pub fn usable_reference_position(&self) -> (r: bool)
        ensures r == !(self.kind == LogRefKind::StructuredPreExisting && self.reference.is_none())
    {
        if self.kind == LogRefKind::StructuredPreExisting && !self.exists() { return false; }
        true
    }
    #[verifier::external_body]
    pub fn insertable_reference_string(&self, reference_id: u32) -> (r: String)
        ensures utf8(r@) == token_bytes(*self, reference_id)
    { unimplemented!() }
}

pub open spec fn missing(e: LogRefEntry) -> bool {
    e.reference.is_none() && !(e.kind == LogRefKind::StructuredPreExisting && e.reference.is_none())
}
pub open spec fn n_missing(es: Seq<LogRefEntry>, k: int) -> int
    decreases k
{
    if k <= 0 { 0 } else { n_missing(es, k - 1) + if missing(es[k - 1]) { 1int } else { 0 } }
}
pub open spec fn cursor(es: Seq<LogRefEntry>, k: int) -> int
    decreases k
{
    if k <= 0 { 0 } else if missing(es[k - 1]) { es[k - 1].position.character as int } else { cursor(es, k - 1) }
}
pub open spec fn out(c: Seq<u8>, es: Seq<LogRefEntry>, first: int, k: int) -> Seq<u8>
    decreases k
{
    if k <= 0 { Seq::empty() }
    else if missing(es[k - 1]) {
        out(c, es, first, k - 1)
          + c.subrange(cursor(es, k - 1), es[k - 1].position.character as int)
          + token_bytes(es[k - 1], ((first + n_missing(es, k - 1)) % 0x1_0000_0000) as u32)
    } else { out(c, es, first, k - 1) }
}
pub open spec fn edited(c: Seq<u8>, es: Seq<LogRefEntry>, first: int) -> Seq<u8> {
    out(c, es, first, es.len() as int) + c.subrange(cursor(es, es.len() as int), c.len() as int)
}

pub struct AsyncTempFile { pub path: String, pub file: async_std::fs::File }
impl AsyncTempFile {
    #[verifier::external_body]
    pub async fn new(Tracked(w): Tracked<&mut World>) -> (r: Result<AsyncTempFile, String>)
        ensures
            r.is_err() ==> final(w).fs == old(w).fs,
            r.is_ok() ==> !old(w).fs.dom().contains(r.unwrap().path@)
                && final(w).fs == old(w).fs.insert(r.unwrap().path@, Seq::empty())
                && r.unwrap().file.path() == r.unwrap().path@
                && r.unwrap().file.accepted() == Seq::<u8>::empty(),
            final(w).counter == old(w).counter, final(w).issued == old(w).issued,
    { unimplemented!() }
    pub fn path(&self) -> (r: &str) ensures r@ == self.path@ { &self.path }
    pub fn file(&mut self) -> (r: &mut async_std::fs::File)
        ensures *r == old(self).file, final(self).file == *final(r), final(self).path == old(self).path
    { &mut self.file }
}

pub struct InsertReferencesResult { pub failure: bool, pub num_inserted_references: usize }

    async fn map(
        path: &str,
        file_contents: &str,
        params: &Option<Arc<AtomicU32>>,
        entries: &[LogRefEntry],
        Tracked(w): Tracked<&mut World>,
    ) -> (res: Option<InsertReferencesResult>)
        requires
            old(w).fs.dom().contains(path@),
            old(w).fs[path@] == file_contents.spec_bytes(),
            params.is_some(),
        ensures
            res.is_some(),
            // [C03.splice] [C05.count] [C01 counter advance]
            !res.unwrap().failure ==> (
                res.unwrap().num_inserted_references == n_missing(entries@, entries@.len() as int)
                && final(w).counter == old(w).counter + n_missing(entries@, entries@.len() as int)
                && (n_missing(entries@, entries@.len() as int) == 0 ==> final(w).fs == old(w).fs)
                && (n_missing(entries@, entries@.len() as int) > 0 ==>
                       final(w).fs[path@] == edited(file_contents.spec_bytes(), entries@, old(w).counter))
            ),
            // [C07] end state is all-or-nothing
            final(w).fs[path@] == file_contents.spec_bytes()
              || final(w).fs[path@] == edited(file_contents.spec_bytes(), entries@, old(w).counter),
    {
        let ghost c = file_contents.spec_bytes();
        let ghost first = w.counter;
        // R3: `entries.iter().filter(|&e| ..).count() == 0`
        let mut pre_count: usize = 0;
        for e in it: entries.iter()
            invariant 0 <= it.index@ <= entries@.len(), pre_count == n_missing(entries@, it.index@), pre_count <= it.index@, it.index@ <= entries.len(),
        {
            if !e.exists() && e.usable_reference_position() { pre_count += 1; }
        }
        if pre_count
            == 0
        {
            return Some(InsertReferencesResult {
                failure: false,
                num_inserted_references: 0,
            });
        }

        let mut created_entries: usize = 0;

        let next_reference_id = match params
        {
            Some(next_id) => next_id,
            None =>
            {
                return Some(InsertReferencesResult {
                    failure: true,
                    num_inserted_references: 0,
                });
            },
        };

        let mut scratch_file = match AsyncTempFile::new(Tracked(w)).await
        {
            Ok(f) => f,
            Err(e) =>
            {
                return Some(InsertReferencesResult {
                    failure: true,
                    num_inserted_references: 0,
                });
            },
        };

        let mut unwritten_content_start_pos: usize = 0;

        for entry in it: entries
            .iter()
            invariant
                0 <= it.index@ <= entries@.len(),
                c == file_contents.spec_bytes(),
                w.fs.dom().contains(path@), w.fs.dom().contains(scratch_file.path@), scratch_file.path@ != path@,
                w.fs[path@] == c,
                scratch_file.file.path() == scratch_file.path@,
                created_entries == n_missing(entries@, it.index@),
                created_entries <= it.index@, it.index@ <= entries.len(),
                unwritten_content_start_pos == cursor(entries@, it.index@),
                unwritten_content_start_pos <= c.len(),
                scratch_file.file.accepted() == out(c, entries@, first, it.index@),
                w.counter == first + created_entries,
        {
            if !entry.exists() && entry.usable_reference_position() {   // R3
            let insert_pos = entry.position().character();

            if insert_pos < unwritten_content_start_pos
            {
                return Some(InsertReferencesResult {
                    failure: true,
                    num_inserted_references: 0,
                });
            }
            // PROBE ONLY: in the real proof `insert_pos <= len` is a precondition discharged by find's contract
            if insert_pos > file_contents.as_bytes().len() { return Some(InsertReferencesResult { failure: true, num_inserted_references: 0 }); }

            match scratch_file
                .file()
                .write_all(&file_contents.as_bytes()[unwritten_content_start_pos..insert_pos], Tracked(w))
                .await
            {
                Ok(_) => (),
                Err(e) =>
                {
                    return Some(InsertReferencesResult {
                        failure: true,
                        num_inserted_references: 0,
                    });
                },
            }

            unwritten_content_start_pos += insert_pos - unwritten_content_start_pos;

            let reference_id = next_reference_id.fetch_add(1, std::sync::atomic::Ordering::Relaxed);
            proof { axiom_fetch_add(w, reference_id, 1); }
            let insertable_ref_id_string = entry.insertable_reference_string(reference_id);

            match scratch_file
                .file()
                .write_all(insertable_ref_id_string.as_bytes(), Tracked(w))
                .await
            {
                Ok(_) => (),
                Err(e) =>
                {
                    return Some(InsertReferencesResult {
                        failure: true,
                        num_inserted_references: 0,
                    });
                },
            }

            created_entries += 1;
            }
        }

        let end_of_file_index = file_contents.len();
        proof { axiom_str_len(file_contents, end_of_file_index); }
        if unwritten_content_start_pos < end_of_file_index
        {
            match scratch_file
                .file()
                .write_all(
                    &file_contents.as_bytes()[unwritten_content_start_pos..end_of_file_index], Tracked(w)
                )
                .await
            {
                Ok(_) => (),
                Err(e) =>
                {
                    return Some(InsertReferencesResult {
                        failure: true,
                        num_inserted_references: 0,
                    });
                },
            }
        }

        assert(scratch_file.file.accepted() == edited(c, entries@, first));
        // PROBE-FLUSH: not in the repository at the pinned commit; delete this line and the proof fails
        match scratch_file.file().flush(Tracked(w)).await { Ok(_) => (), Err(e) => { return Some(InsertReferencesResult { failure: true, num_inserted_references: 0 }); } }
        match async_std::fs::rename(scratch_file.path(), path, Tracked(w)).await
        {
            Ok(_) =>
            {
                return Some(InsertReferencesResult {
                    failure: false,
                    num_inserted_references: created_entries,
                });
            },
            Err(e) =>
            {
                return Some(InsertReferencesResult {
                    failure: true,
                    num_inserted_references: created_entries,
                });
            },
        }
    }

}
fn main() {}
