use vstd::prelude::*;
use vstd::std_specs::cmp::*;
verus! {

pub assume_specification<T: Ord> [core::cmp::max] (a: T, b: T) -> (r: T)
    ensures
        a.cmp_spec(&b) == core::cmp::Ordering::Greater ==> r == a,
        a.cmp_spec(&b) != core::cmp::Ordering::Greater ==> r == b;

const START_REFERENCE_ID: u32 = 1;

pub open spec fn max_id(s: Seq<(u32, usize)>) -> nat
    decreases s.len()
{
    if s.len() == 0 { 0 } else { let m = max_id(s.drop_last()); if s.last().0 as nat > m { s.last().0 as nat } else { m } }
}
pub open spec fn sum_missing(s: Seq<(u32, usize)>) -> nat
    decreases s.len()
{
    if s.len() == 0 { 0 } else { sum_missing(s.drop_last()) + s.last().1 as nat }
}
proof fn sum_mono(s: Seq<(u32, usize)>, i: int)
    requires 0 <= i <= s.len()
    ensures sum_missing(s.take(i)) <= sum_missing(s)
    decreases s.len() - i
{
    if i < s.len() {
        sum_mono(s, i+1);
        assert(s.take(i+1).drop_last() == s.take(i));
    } else {
        assert(s.take(i) == s);
    }
}

    fn reduce(map_results: &[(u32, usize)]) -> (res: Option<(u32, usize)>)
        requires sum_missing(map_results@) <= usize::MAX,
        ensures
            res.is_some(),
            res.unwrap().0 as nat == (if max_id(map_results@) == 0 { 1 } else { max_id(map_results@) + 1 }),
            res.unwrap().1 as nat == sum_missing(map_results@),
    {
        use std::cmp;

        let mut ref_id_result: u32 = 0;
        let mut missing_refs_result: usize = 0;

        for map_result in it: map_results.iter()
            invariant
                ref_id_result as nat == max_id(map_results@.take(it.index@)),
                missing_refs_result as nat == sum_missing(map_results@.take(it.index@)),
                sum_missing(map_results@) <= usize::MAX,
                0 <= it.index@ <= map_results@.len(),
        {
            proof {
                sum_mono(map_results@, it.index@ + 1);
                assert(map_results@.take(it.index@ + 1).drop_last() == map_results@.take(it.index@));
            }
            ref_id_result = cmp::max(ref_id_result, map_result.0);
            missing_refs_result += map_result.1;
        }
        proof { assert(map_results@.take(map_results@.len() as int) == map_results@); }

        if ref_id_result == 0
        {
            return Some((START_REFERENCE_ID, missing_refs_result));
        }

        Some((ref_id_result + 1, missing_refs_result))
    }

}
fn main() {}
