"""Replay templates: turn a violated obligation into a concrete run of the real release binary built from the current tree."""
import os
import json
import shutil
import subprocess
from replay.replay import TEMPLATES

ROOT = os.path.dirname(os.path.dirname(os.path.abspath(__file__)))
REPO = os.environ.get("VERIF_REPO", "/repo")


def build_release(scratch):
    subprocess.run(["rsync", "-a", "--exclude", "target", "--exclude", ".git", REPO + "/", scratch + "/repo/"], check=True)
    env = dict(os.environ, CARGO_TARGET_DIR=scratch + "/target", CARGO_NET_OFFLINE="true")
    b = subprocess.run(["cargo", "build", "--release", "--offline"], cwd=scratch + "/repo", env=env, capture_output=True, text=True)
    if b.returncode != 0:
        raise RuntimeError("cargo build failed: " + b.stderr[-300:])
    return scratch + "/target/release/breadlog"


def project(dirpath, files, yaml_extra="use_cache: false\n", lock=None):
    os.makedirs(dirpath + "/src", exist_ok=True)
    with open(dirpath + "/Breadlog.yaml", "w") as f:
        f.write("source_dir: ./src\n" + yaml_extra + "rust:\n  log_macros:\n    - module: log\n      name: info\n")
    for name, content in files.items():
        with open(dirpath + "/src/" + name, "w") as f:
            f.write(content)
    if lock is not None:
        with open(dirpath + "/Breadlog.lock", "w") as f:
            f.write("next_reference_id: %d\n" % lock)


def c12_conform(pid, v, tier):
    """The conformance run already executed the real code on the failing input; replay it through the release binary."""
    ex = v.get("extra") or {}
    s = ex.get("failing_input")
    if s is None:
        return None
    scratch = "/var/tmp/verif-replay-%d" % os.getpid()
    shutil.rmtree(scratch, ignore_errors=True)
    os.makedirs(scratch)
    try:
        binp = build_release(scratch)
        project(scratch + "/p", {"a.rs": 'fn f() {\n    info!("%s");\n}\n' % s})
        r = subprocess.run([binp, "--config", scratch + "/p/Breadlog.yaml", "--check"], capture_output=True, text=True)
        expect_referenced = ex.get("oracle", "").startswith("Some")
        observed_referenced = (r.returncode == 0)
        return {"found": observed_referenced != expect_referenced,
                "counterexample": {"message_literal_starts_with": s, "rule_says": ex.get("oracle"), "library_says": ex.get("real")},
                "native_replay": {"cmd": "breadlog --config Breadlog.yaml --check   (src/a.rs: info!(\"%s\");)" % s, "exit": r.returncode,
                                  "meaning": "exit 0 = statement treated as referenced", "stdout_tail": r.stdout[-300:]},
                "replay_cmd": "python3 %s/replay/native.py c12 --input %s --expect '%s'" % (ROOT, __import__("shlex").quote(s), ex.get("oracle"))}
    finally:
        shutil.rmtree(scratch, ignore_errors=True)


TEMPLATES["C12.conform"] = c12_conform


# ---- C01: Kani finds concrete per-file results violating the reduce contract; replayed on the release binary -------------
import re


def run_kani(scratch, harness):
    hs = open(os.path.join(ROOT, "kani", "harness_generate.rs")).read()
    with open(scratch + "/repo/src/codegen/generate.rs", "a") as f:
        f.write(hs)
    env = dict(os.environ, CARGO_TARGET_DIR=scratch + "/kani-target", CARGO_NET_OFFLINE="true")
    r = subprocess.run(["cargo", "kani", "--harness", harness, "-Z", "concrete-playback", "--concrete-playback=print"],
                       cwd=scratch + "/repo", env=env, capture_output=True, text=True, timeout=1500)
    out = r.stdout + r.stderr
    failed = "VERIFICATION:- FAILED" in out
    vals = []
    m = re.search(r"let concrete_vals: Vec<Vec<u8>> = vec!\[(.*?)\];", out, re.S)
    if m:
        vals = [int(x) for x in re.findall(r"//\s*(\d+)", m.group(1))]
    fc = re.search(r"Failed Checks:(.*?)\n\n", out, re.S)
    return failed, vals, (fc.group(0).strip() if fc else ""), out[-1500:]


def native_c01(binp, workdir, existing_a, existing_b, lock=None):
    """two-file tree with the given existing IDs (0 = none) and one statement lacking a reference in each file"""
    def body(eid):
        s = "fn f() {\n"
        if eid:
            s += '    info!("[ref: %d] existing");\n' % eid
        s += '    info!("new one");\n}\n'
        return s
    shutil.rmtree(workdir, ignore_errors=True)
    project(workdir, {"a.rs": body(existing_a), "b.rs": body(existing_b)}, yaml_extra="use_cache: false\n" if lock is None else "", lock=lock)
    r = subprocess.run([binp, "--config", workdir + "/Breadlog.yaml"], capture_output=True, text=True)
    ids = []
    for n in ("a.rs", "b.rs"):
        ids += [int(x) for x in re.findall(r"\[ref: (\d+)\]", open(workdir + "/src/" + n).read())]
    existing = [x for x in (existing_a, existing_b) if x]
    new = list(ids)
    for e in existing:
        if e in new:
            new.remove(e)
    problems = []
    if len(set(ids)) != len(ids):
        problems.append("duplicate IDs %s" % sorted(ids))
    for x in new:
        if not (1 <= x <= 4294967295):
            problems.append("ID %d outside 1..=4294967295" % x)
        if existing and x <= max(existing):
            problems.append("new ID %d not greater than existing maximum %d" % (x, max(existing)))
    return {"exit": r.returncode, "ids_after": ids, "new_ids": new, "problems": problems}


_C01_CACHE = {}


def c01_kani(pid, v, tier):
    fn = v.get("fn") or ""
    if pid not in ("C01", "C17") or ("generate.rs" not in fn and "generate.rs" not in (v.get("src") or "")):
        return None
    if "r" not in _C01_CACHE:
        _C01_CACHE["r"] = _c01_kani(pid, v, tier)
    return _C01_CACHE["r"]


def _c01_kani(pid, v, tier):
    scratch = "/var/tmp/verif-replay-%d" % os.getpid()
    shutil.rmtree(scratch, ignore_errors=True)
    os.makedirs(scratch)
    try:
        binp = build_release(scratch)
        failed, vals, fc, tail = run_kani(scratch, "verif_reduce_next_id")
        ce = None
        nat = None
        found = False
        if failed and len(vals) >= 4:
            ce = {"kani_harness": "verif_reduce_next_id (bounded: two per-file results)", "per_file_results": [[vals[0], vals[1]], [vals[2], vals[3]]], "failed_checks": fc}
            nat = native_c01(binp, scratch + "/p", vals[0], vals[2])
            found = bool(nat["problems"])
        if not found:
            # boundary family on the real binary (guided by the violated obligation; bounded search, never a claim of absence)
            for a, b, lock in ((4294967295, 0, None), (4294967294, 0, None), (4294967295, 4294967294, None), (0, 0, 4294967295), (7, 3, 4294967295), (0, 0, None), (5, 9, None)):
                n2 = native_c01(binp, scratch + "/p", a, b, lock)
                if n2["problems"]:
                    nat = dict(n2, tree={"existing_in_a": a, "existing_in_b": b, "lock": lock})
                    ce = ce or {"boundary_family": True}
                    found = True
                    break
        cmd = None
        if found and nat:
            t = nat.get("tree") or ({"existing_in_a": vals[0], "existing_in_b": vals[2], "lock": None} if len(vals) >= 4 else None)
            if t:
                cmd = "python3 %s/replay/native.py c01 --a %d --b %d%s" % (ROOT, t["existing_in_a"], t["existing_in_b"], (" --lock %d" % t["lock"]) if t.get("lock") is not None else "")
        return {"found": found, "counterexample": ce, "native_replay": nat, "replay_cmd": cmd, "error": None if (failed or found) else "kani found no counterexample: " + tail[-300:]}
    finally:
        shutil.rmtree(scratch, ignore_errors=True)


TEMPLATES["C01"] = c01_kani
TEMPLATES["internal"] = c01_kani


def c06_roundtrip(pid, v, tier):
    """The bounded run executed the real release binary and library on this statement: the failing input is in hand."""
    ex = v.get("extra") or {}
    if ex.get("failing_input") is None:
        return None
    return {"found": True,
            "counterexample": {"statement": ex["failing_input"], "style": "structured" if ex.get("structured") else "unstructured", "what": ex.get("what")},
            "native_replay": {"how": "one file `fn f() {\\n    <statement>\\n}`, Breadlog.yaml with use_cache: false, structured: %s, log_macros [log::info]; "
                                     "run `breadlog -c Breadlog.yaml`, then `--check`, then the edit again" % ("true" if ex.get("structured") else "false"),
                              "observed": ex.get("what")},
            "replay_cmd": None}


TEMPLATES["C06.roundtrip"] = c06_roundtrip


def c11_decoys(pid, v, tier):
    ex = v.get("extra") or {}
    if ex.get("failing_input") is None:
        return None
    return {"found": True, "counterexample": {"file_content": ex["failing_input"], "kind": ex.get("kind"), "style": "structured" if ex.get("structured") else "unstructured", "what": ex.get("what")},
            "native_replay": {"how": "write the content to src/d.rs, Breadlog.yaml with use_cache: false and log_macros [log::info]; run `breadlog -c Breadlog.yaml --check` and the edit", "observed": ex.get("what")},
            "replay_cmd": None}


TEMPLATES["C11.decoys"] = c11_decoys


def c14_placement(pid, v, tier):
    ex = v.get("extra") or {}
    if ex.get("failing_input") is None:
        return None
    return {"found": True, "counterexample": {"file_content": ex["failing_input"], "directive": ex.get("directive"), "style": "structured" if ex.get("structured") else "unstructured",
                                              "what": ex.get("what"), "file_after_edit": ex.get("after")},
            "native_replay": {"how": "write the content to src/c.rs, Breadlog.yaml with use_cache: false, structured: %s and log_macros [log::info]; run `breadlog -c Breadlog.yaml`"
                                     % ("true" if ex.get("structured") else "false"), "observed": ex.get("what")},
            "replay_cmd": None}


TEMPLATES["C14.placement"] = c14_placement


def e2e_family(pid, v, tier):
    """The bounded family ran the real release binary on this generated tree: the failing input is in hand and can be regenerated."""
    ex = v.get("extra") or {}
    if ex.get("failing_input") is None:
        return None
    d = ex["failing_input"]
    return {"found": True,
            "counterexample": {"configuration": {k: d[k] for k in d if k != "files"}, "files": d.get("files"), "what": ex.get("what")},
            "native_replay": {"how": "the generated project tree is written to a scratch directory and run through `breadlog --check`, `breadlog`, `breadlog --check`, `breadlog` "
                                     "(release build of the current tree), from a foreign working directory with a private TMPDIR", "observed": ex.get("what")},
            "replay_cmd": "python3 %s/replay/e2e_replay.py %s %s %s %d %d" % (os.path.dirname(os.path.dirname(os.path.abspath(__file__))), ex.get("family"), ex.get("pid") or pid, ex.get("tier"), ex.get("seed", 0), ex.get("index", 0))}
