"""Replay templates: turn a violated obligation into a concrete run of the real release binary built from the current tree."""
import os
import json
import shutil
import subprocess
from replay.replay import TEMPLATES

ROOT = os.path.dirname(os.path.dirname(os.path.abspath(__file__)))
REPO = os.environ.get("VERIF_REPO", "/repo")


def build_release(scratch):
    subprocess.run(["rsync", "-a", "--exclude", "target", "--exclude", ".git", REPO + "/", scratch + "/repo/"], check=True)
    env = dict(os.environ, CARGO_TARGET_DIR=scratch + "/target", CARGO_NET_OFFLINE="true")
    b = subprocess.run(["cargo", "build", "--release", "--offline"], cwd=scratch + "/repo", env=env, capture_output=True, text=True)
    if b.returncode != 0:
        raise RuntimeError("cargo build failed: " + b.stderr[-300:])
    return scratch + "/target/release/breadlog"


def project(dirpath, files, yaml_extra="use_cache: false\n", lock=None):
    os.makedirs(dirpath + "/src", exist_ok=True)
    with open(dirpath + "/Breadlog.yaml", "w") as f:
        f.write("source_dir: ./src\n" + yaml_extra + "rust:\n  log_macros:\n    - module: log\n      name: info\n")
    for name, content in files.items():
        with open(dirpath + "/src/" + name, "w") as f:
            f.write(content)
    if lock is not None:
        with open(dirpath + "/Breadlog.lock", "w") as f:
            f.write("next_reference_id: %d\n" % lock)


def c12_conform(pid, v, tier):
    """The conformance run already executed the real code on the failing input; replay it through the release binary."""
    ex = v.get("extra") or {}
    s = ex.get("failing_input")
    if s is None:
        return None
    scratch = "/var/tmp/verif-replay-%d" % os.getpid()
    shutil.rmtree(scratch, ignore_errors=True)
    os.makedirs(scratch)
    try:
        binp = build_release(scratch)
        project(scratch + "/p", {"a.rs": 'fn f() {\n    info!("%s");\n}\n' % s})
        r = subprocess.run([binp, "--config", scratch + "/p/Breadlog.yaml", "--check"], capture_output=True, text=True)
        expect_referenced = ex.get("oracle", "").startswith("Some")
        observed_referenced = (r.returncode == 0)
        return {"found": observed_referenced != expect_referenced,
                "counterexample": {"message_literal_starts_with": s, "rule_says": ex.get("oracle"), "library_says": ex.get("real")},
                "native_replay": {"cmd": "breadlog --config Breadlog.yaml --check   (src/a.rs: info!(\"%s\");)" % s, "exit": r.returncode,
                                  "meaning": "exit 0 = statement treated as referenced", "stdout_tail": r.stdout[-300:]},
                "replay_cmd": None}
    finally:
        shutil.rmtree(scratch, ignore_errors=True)


TEMPLATES["C12.conform"] = c12_conform
