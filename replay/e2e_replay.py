#!/usr/bin/env python3
"""e2e_replay.py <family> <pid> <tier> <seed> <index> — re-run a bounded end-to-end family (scenarios: only scenario <index>; errors / faults / signals: the
whole family) against the release binary built from VERIF_REPO (default /repo); exit 1 when the property is violated, 0 otherwise."""
import os
import sys
sys.path.insert(0, os.path.dirname(os.path.dirname(os.path.abspath(__file__))))
from contracts import e2e  # noqa: E402

fam, pid, tier, seed, index = sys.argv[1], sys.argv[2], sys.argv[3], int(sys.argv[4]), int(sys.argv[5])
if fam == "scenarios":
    r = e2e.run_family(pid, tier, seed, only=index)
elif fam == "errors":
    r = e2e.run_errors(pid, tier, seed)
elif fam == "faults":
    from contracts import e2e_faults
    r = e2e_faults.run_faults(pid, tier, seed)
elif fam == "signals":
    from contracts import e2e_signals
    r = e2e_signals.run_signals(pid, tier, seed)
else:
    print("unknown family", fam)
    sys.exit(2)
if r.get("undecided"):
    print(r["undecided"])
    sys.exit(2)
for v in r["violations"]:
    print("violated: %s" % v["msg"])
    d = v["extra"]["failing_input"]
    print("input: %s" % {k: d[k] for k in d if k != "files"})
    for f, t in (d.get("files") or {}).items():
        print("--- %s\n%s" % (f, t if len(t) < 3000 else t[:300] + "..."))
sys.exit(1 if r["violations"] else 0)
