#!/usr/bin/env python3
"""e2e_replay.py <pid> <tier> <seed> <index> — regenerate scenario <index> of the bounded family and run it through the release binary built from
VERIF_REPO (default /repo); exit 1 when the property is violated on it, 0 otherwise."""
import os
import sys
sys.path.insert(0, os.path.dirname(os.path.dirname(os.path.abspath(__file__))))
from contracts import e2e  # noqa: E402

pid, tier, seed, index = sys.argv[1], sys.argv[2], int(sys.argv[3]), int(sys.argv[4])
r = e2e.run_family(pid, tier, seed, only=index)
if r.get("undecided"):
    print(r["undecided"])
    sys.exit(2)
for v in r["violations"]:
    print("violated: %s" % v["msg"])
    d = v["extra"]["failing_input"]
    print("configuration: %s" % {k: d[k] for k in d if k != "files"})
    for f, t in d["files"].items():
        print("--- src/%s\n%s" % (f, t))
sys.exit(1 if r["violations"] else 0)
