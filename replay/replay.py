"""Replay files: one JSON per violated obligation.  Where a Kani harness / native template exists for the
obligation, the counterexample is decoded and run against the real release binary built from the current tree."""
import os
import sys
import json

ROOT = os.path.dirname(os.path.dirname(os.path.abspath(__file__)))

# obligation label -> callable(violation, tier) -> dict(found=bool, ...)   (filled in by replay/templates.py)
TEMPLATES = {}


def make_replay(pid, v, path, tier, use_templates=True):
    doc = {
        "property": pid,
        "failed_obligation": v.get("obligation_id"),
        "verifier_message": v.get("msg"),
        "repo_location": "%s:%s" % (v.get("src"), v.get("sline")) if v.get("src") else None,
        "site": v.get("site_text"),
        "clause": v.get("clause_text"),
        "unit": v.get("unit"),
        "verifier_output": v.get("rendered"),
        "counterexample": None,
        "native_replay": None,
    }
    found = False
    try:
        from replay import templates  # noqa: F401
    except Exception as e:  # templates are optional
        doc["template_error"] = repr(e)
    key = (v.get("label") or "internal")
    items = list(TEMPLATES.items()) if use_templates else []
    if key.endswith(".e2e"):
        from replay import templates as _t
        items = [(key, _t.e2e_family)]
    for lab, fn in items:
        if key.startswith(lab) or (lab == "*"):
            try:
                r = fn(pid, v, tier)
            except Exception as e:
                r = {"found": False, "error": repr(e)}
            if r:
                doc["counterexample"] = r.get("counterexample")
                doc["native_replay"] = r.get("native_replay")
                doc["replay_cmd"] = r.get("replay_cmd")
                if r.get("error"):
                    doc["template_error"] = r["error"]
                found = bool(r.get("found"))
                if found:
                    break
    doc["failing_input_found"] = found
    if "extra" in v:
        doc["extra"] = v["extra"]
    with open(path, "w") as f:
        json.dump(doc, f, indent=1)
    return found


def replay_file(path):
    with open(path) as f:
        doc = json.load(f)
    print(json.dumps({k: doc.get(k) for k in ("property", "failed_obligation", "verifier_message", "repo_location", "counterexample")}, indent=1))
    cmd = doc.get("replay_cmd")
    if cmd:
        import subprocess
        r = subprocess.run(cmd, shell=True)
        return 1 if r.returncode != 0 else 0
    print("no native replay recorded for this obligation (no-failing-input-found)")
    return 1
