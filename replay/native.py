#!/usr/bin/env python3
"""Native replay of a recorded counterexample on the release binary built from /repo's current tree.
  native.py c01 --a <existing id in a.rs, 0=none> --b <existing id in b.rs> [--lock N]
  native.py c12 --input '<message literal prefix>' --expect 'None'|'Some(n)'
exit 1 = the property is violated on the real binary (the counterexample reproduces), 0 = it does not."""
import os, sys, json, shutil, argparse
ROOT = os.path.dirname(os.path.dirname(os.path.abspath(__file__)))
sys.path.insert(0, ROOT)
from replay import templates as T

ap = argparse.ArgumentParser()
ap.add_argument("kind")
ap.add_argument("--a", type=int, default=0)
ap.add_argument("--b", type=int, default=0)
ap.add_argument("--lock", type=int, default=None)
ap.add_argument("--input", default="")
ap.add_argument("--expect", default="None")
a = ap.parse_args()
scratch = "/var/tmp/verif-native-%d" % os.getpid()
shutil.rmtree(scratch, ignore_errors=True)
os.makedirs(scratch)
try:
    binp = T.build_release(scratch)
    if a.kind == "c01":
        r = T.native_c01(binp, scratch + "/p", a.a, a.b, a.lock)
        print(json.dumps(r, indent=1))
        sys.exit(1 if r["problems"] else 0)
    elif a.kind == "c12":
        import subprocess
        T.project(scratch + "/p", {"a.rs": 'fn f() {\n    info!("%s");\n}\n' % a.input})
        r = subprocess.run([binp, "--config", scratch + "/p/Breadlog.yaml", "--check"], capture_output=True, text=True)
        referenced = r.returncode == 0
        print("input %r: real binary treats it as %s; the rule says %s" % (a.input, "referenced" if referenced else "not referenced", a.expect))
        sys.exit(1 if referenced != a.expect.startswith("Some") else 0)
finally:
    shutil.rmtree(scratch, ignore_errors=True)
