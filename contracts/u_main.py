"""Unit `main`: main.rs — argument parsing, setup_context, signal registration, mode dispatch, exit status.
Callees in other files appear as stubs carrying exactly the contracts proved in units `generate` and `context`."""
import re
from weave.weaver import Unit, LostAnchor
from weave import rules, lexer
from . import common, u_generate, u_context
from .common import MAIN, GEN, CTX

EFFECTIVE = """verus! {
// the effective configuration of this run, as Context::new's contract (unit `context`) determines it from the YAML text
pub open spec fn run_yaml(w: World) -> Seq<char> { decode(w.fs[config_arg()]) }
pub open spec fn config_ok(w: World) -> bool { readable(config_arg()) && yaml_config(run_yaml(w)).is_some() }
pub open spec fn effective(cfg: Config, w: World) -> bool {
    let y = yaml_config(run_yaml(w)).unwrap();
    &&& cfg.use_cache == y.use_cache && cfg.rust == y.rust
    &&& cfg.config_dir@ == config_dir()
    &&& cfg.source_dir@ == (if y.source_dir@.len() > 0 && y.source_dir@[0] == '/' { y.source_dir@ } else { path_join(config_dir(), y.source_dir@) })
}
pub open spec fn ctx_ok(ctx: Context, w: World, check_mode: bool) -> bool {
    &&& effective(ctx.config, w)
    &&& ctx.check_mode == check_mode
    &&& ctx.cached_next_reference_id == lock_value(w, yaml_config(run_yaml(w)).unwrap().use_cache, lock_path())
}
#[verifier::external_body]
pub fn string_from(s: &str) -> (r: String) ensures r@ == s@ { unimplemented!() }
}
"""

MAIN_SHIMS = """verus! {
pub enum LevelFilter { Info }
pub struct SimpleLogger { pub _p: () }
#[derive(Debug)]
pub struct LoggerInitError { pub _p: () }
impl SimpleLogger {
    #[verifier::external_body]
    pub fn new() -> (r: SimpleLogger) { unimplemented!() }
    #[verifier::external_body]
    pub fn with_level(self, l: LevelFilter) -> (r: SimpleLogger) { unimplemented!() }
    // first and only logger installed by the process: succeeds; writes to stderr/stdout only
    #[verifier::external_body]
    pub fn init(self) -> (r: Result<(), LoggerInitError>) ensures r.is_ok() { unimplemented!() }
}
impl ProgArgs {
    // clap: `--config <path>` and `--check`; the ghost check_mode is what the user asked for
    #[verifier::external_body]
    pub fn parse(Tracked(w): Tracked<&mut World>) -> (r: ProgArgs)
        ensures
            r.config@ == config_arg(),
            final(w).check_mode == r.check,
            final(w).fs == old(w).fs, final(w).log == old(w).log,
            same_but_fs(World { check_mode: final(w).check_mode, ..*old(w) }, *final(w)),
    { unimplemented!() }
}
pub struct SigId { pub _p: () }
pub mod signal_hook {
    pub mod consts {
        // Linux signal numbers (libc)
        pub const SIGINT: i32 = 2;
        pub const SIGTERM: i32 = 15;
    }
    pub mod flag {
        use vstd::prelude::*;
        use super::super::*;
        // wires `signal` to the flag: from now on its delivery sets the flag instead of killing the process
        #[verifier::external_body]
        pub fn register(signal: i32, flag: Arc<AtomicBool>, Tracked(w): Tracked<&mut World>) -> (r: Result<SigId, IoError>)
            ensures
                r.is_ok() ==> final(w).handlers == old(w).handlers.insert(signal as int),
                r.is_err() ==> final(w).handlers == old(w).handlers,
                final(w).fs == old(w).fs, final(w).log == old(w).log,
                same_but_fs(World { handlers: final(w).handlers, ..*old(w) }, *final(w)),
        { unimplemented!() }
        // The plausible neighbours of `register` that make the *handler itself* terminate the process (second Ctrl-C quits at once, default
        // action restored): the run then ends between two operations without writing the lock and without exiting by itself, which the
        // properties exclude - a call is an obligation failure, not an unknown function.
        #[verifier::external_body]
        pub fn register_conditional_shutdown(signal: i32, status: i32, flag: Arc<AtomicBool>, Tracked(w): Tracked<&mut World>) -> (r: Result<SigId, IoError>)
            requires
                false, // [C02.abrupt,C18.abrupt]
        { unimplemented!() }
        #[verifier::external_body]
        pub fn register_conditional_default(signal: i32, flag: Arc<AtomicBool>, Tracked(w): Tracked<&mut World>) -> (r: Result<SigId, IoError>)
            requires
                false, // [C02.abrupt,C18.abrupt]
        { unimplemented!() }
    }
}
}
"""


def build():
    u = Unit("main")
    u.include("shims/prelude.rs")
    common.entry_types(u)
    u.include("spec/entries.rs")
    u.include("shims/io.rs")
    u.include("shims/stdshim.rs")
    u.raw("use stdshim::fs;\n")
    u_generate.config_types(u)
    u.real_item(CTX, r"pub struct Cache\b", common.de_serde)
    u.include("shims/driver_stubs_core.rs")
    from . import u_find
    _tmpp = Unit("tmpp")
    _fr = u_find.find_references(_tmpp)
    u.raw("verus! {\n")
    u.stub_of(_fr, note="find_references: positions contract proved in unit `find`; purity and size bound assumed",
              extra_ensures=["r@ == found(code.spec_bytes(), *config)", "r@.len() <= u32::MAX"])
    u.raw("}\n")
    u.include("shims/walk.rs")
    from . import u_finder
    _tmpf = Unit("tmpf")
    _fn = u_finder.finder_new(_tmpf)
    u.raw("verus! {\nimpl<'ctx> CodeFinder<'ctx> {\n")
    u.stub_of(_fn, note="CodeFinder::new: contract proved in unit `finder`")
    u.raw("}\n}\n")
    u.real_item(GEN, r"struct InsertReferencesResult\b", lambda t: common.wrap(common.pub_fields(common.strip_doc(t))), "R7")
    u.include("spec/ids.rs")
    u.include("spec/report.rs")
    u.include("spec/tree.rs")
    u.raw(u_context.DEFAULTS_SPEC)
    u_context.serde_axioms(u)
    u.raw(u_context.lock_value_spec())
    u_context.cache_axioms(u)
    u.raw(EFFECTIVE)

    def progargs(t):
        t = re.sub(r"^\s*#\[clap\([^\]]*\)\]\s*\n", "", t, flags=re.M)
        t = re.sub(r"#\[derive\([^\]]*\)\]", "", t)
        return common.wrap(common.pub_fields(common.strip_doc(t)))
    u.real_item(MAIN, r"struct ProgArgs\b", progargs, "clap attributes dropped (parse is a shim)")
    u.raw(MAIN_SHIMS)
    u.real_item(MAIN, r"const ERR_CODE_CONFIG_READ\b", common.wrap)
    u.real_item(MAIN, r"const ERR_CODE_CONFIG_LOAD\b", common.wrap)

    # ---- stubs with the contracts proved elsewhere ----------------------------------------------------
    tmp = Unit("tmp")
    tmp2 = Unit("tmp2")
    wired = [("C18.wired,C02.wired", "old(w).handlers.contains(2) && old(w).handlers.contains(15)")]
    u.raw("verus! {\npub mod config { pub use super::Context; }\npub mod codegen { pub mod generate { pub use super::super::{check_references, generate_code}; } }\n")
    chk = u_generate.check_references(tmp)
    gen = u_generate.generate_code(tmp)
    u.stub_of(chk, extra_requires=wired, note="check_references: contract proved in unit `generate`; C18.wired added as call-site obligation")
    u.stub_of(gen, extra_requires=wired, note="generate_code: contract proved in unit `generate`; C18.wired added as call-site obligation")
    u.raw("impl Context {\n")
    # Context::new is the last real fn created in u_context.build(); rebuild that unit to get its Woven
    cu = u_context.build()
    cnew = [f for f in cu.fns if f.qual().endswith("Context::new")][0]
    u.stub_of(cnew, note="Context::new: contract proved in unit `context`")
    u.raw("}\n")

    # ---- setup_context ----------------------------------------------------------------------------------
    f = u.real_fn(MAIN, "setup_context", props=("C04", "C15", "C16", "C17"))
    rules.sig(f, ret="r", world=True)
    rules.r1_logs(f)
    rules.r13_reroot(f, {"std::path::": "stdshim::path::", "std::env::": "stdshim::env::", "std::fs::": "stdshim::fs::"})
    rules.r8_thread(f, [r"fs::(?:read_to_string|write|remove_file|copy|rename)\(", r"config::Context::new\("])
    f.replace_all(r"String::from\s*\(", "string_from(", "R9", regex=True)
    f.requires += ["config_filename@ == config_arg()"]
    f.ensures += [
        ("C04.frame", "final(w).fs == old(w).fs && same_but_fs(World { log: final(w).log, ..*old(w) }, *final(w))"),
        ("C16.errors", "r.is_ok() == config_ok(*old(w))"),
        ("C15.rel,C15.lock,C16.values", "r.is_ok() ==> ctx_ok(r.unwrap(), *old(w), check_mode)"),
    ]
    s0, e0, _ = f.find_one("Ok(yaml) =>")
    ob = f.mbody.index("{", e0)
    f.insert_at(ob + 1, " proof { axiom_decode(yaml@); assert(run_yaml(*w) == yaml@); reveal_strlit(\"\"); assert(\"\"@ =~= Seq::<char>::empty()); }")

    # ---- main -------------------------------------------------------------------------------------------------
    f = u.real_fn(MAIN, "main", emit_name="breadlog_main", props=("C02", "C04", "C05", "C07", "C08", "C16", "C17", "C18"))
    rules.sig(f, ret="res", world=True, name="breadlog_main")
    rules.r1_logs(f)
    rules.r8_thread(f, [r"ProgArgs::parse\(", r"setup_context\(", r"signal_hook::flag::register(?:_conditional_shutdown|_conditional_default)?\(",
                        r"codegen::generate::check_references\(", r"codegen::generate::generate_code\("])
    f.requires += [
        "old(w).fs == old(w).orig", "old(w).intended == Map::<Seq<char>, Seq<u8>>::empty()", "old(w).alloc == Map::<Seq<char>, int>::empty()",
        "old(w).protected == Set::<Seq<char>>::empty()", "old(w).files == Seq::<Seq<char>>::empty()",
        "old(w).handlers == Set::<int>::empty()", "!old(w).stop_seen",
        "!is_temp(lock_path())",
        # assumption: a lock value, when present, was written by Breadlog (first ID is 1)
        "lock_value(*old(w), true, lock_path()).is_some() ==> lock_value(*old(w), true, lock_path()).unwrap() >= 1",
    ]
    f.ensures += [
        ("C04.frame", "final(w).check_mode ==> final(w).fs == old(w).fs"),
        ("C07.frame", "!final(w).check_mode && config_ok(*old(w)) ==> atomic_inv(*final(w))"),
        ("C16.errors", "!config_ok(*old(w)) ==> res.is_err() && final(w).fs == old(w).fs"),
        ("C05.verdict,C16.errors", "final(w).check_mode && res.is_ok() ==> final(w).files.len() > 0 && exists|cfg: Config| #[trigger] effective(cfg, *old(w))"
         " && tree_missing(final(w).files, old(w).fs, cfg, final(w).files.len() as int) == 0"),
        ("C18.check", "final(w).check_mode && res.is_ok() ==> !final(w).stop_seen"),
        ("C08.fail,C16.errors", "!final(w).check_mode && res.is_ok() ==> final(w).files.len() > 0 && exists|cfg: Config| #[trigger] effective(cfg, *old(w))"
         " && all_edited(*final(w), cfg, final(w).files.len() as int)"),
    ]
    f.before_stmt(r"if\s+!?\s*app_context\s*\.\s*check_mode", regex=True, text="proof { assert(effective(app_context.config, *old(w))); assert(atomic_inv(*w)); }\n    ")
    for callee, fact in (("generate_code", "all_edited(*w, app_context.config, w.files.len() as int)"),
                         ("check_references", "tree_missing(w.files, old(w).fs, app_context.config, w.files.len() as int) == 0")):
        s0, e0, _ = f.find_one("codegen::generate::%s(" % callee)
        po = f.mbody.index("(", s0)
        pc = lexer.match_close(f.body, po)
        ob = f.mbody.index("{", pc)
        cb = lexer.match_close(f.body, ob)
        f.insert_at(cb + 1, "\n        proof { assert(effective(app_context.config, *old(w))); assert(w.files.len() > 0 && %s); }" % fact)
    u.raw("}\n")
    u.raw("fn main() {}\n")
    u.assume("clap: ProgArgs::parse returns the --config argument and the --check flag; signal_hook::flag::register wires exactly the given signal number; SIGINT=2, SIGTERM=15 (Linux)")
    u.assume("SimpleLogger::init succeeds (first logger of the process) and touches no file")
    return u
