"""C12 — bounded-exhaustive conformance of the real reference extraction (regex engine + parse, reached through the real
parser: breadlog::parse_rust) against the oracle binary that Verus verified (token_rule == exec_extract; inserted token
lemma) and compiled (spec/c12_oracle.rs).  BOUNDED: never counted as proved."""
import os
import shutil
import subprocess
import itertools
import time

ROOT = os.path.dirname(os.path.dirname(os.path.abspath(__file__)))
REPO = os.environ.get("VERIF_REPO", "/repo")
ALPHABET = ["[", "r", "e", "f", ":", " ", "]", "0", "1", "9", "٣", "x", "+"]

HARNESS = r'''
use std::io::BufRead;
fn main() {
    let stdin = std::io::stdin();
    let mut out = String::new();
    for line in stdin.lock().lines() {
        let line = line.unwrap();
        let code = format!("fn f() {{\n    info!(\"{}\");\n}}\n", line);
        let es = breadlog::parse_rust(&code);
        if es.len() != 1 { out.push_str(&format!("ENTRIES={}\n", es.len())); continue; }
        match es[0].reference() { Some(n) => out.push_str(&format!("Some({})\n", n)), None => out.push_str("None\n") }
    }
    print!("{}", out);
}
'''


def candidates(tier):
    raw_len = 5 if tier == "quick" else 6
    tail_len = 4 if tier == "quick" else 5
    seen = set()
    out = []

    def add(s):
        if s not in seen and '"' not in s and "\\" not in s and "\n" not in s:
            seen.add(s)
            out.append(s)
    for n in range(raw_len + 1):
        for t in itertools.product(ALPHABET, repeat=n):
            add("".join(t))
    for n in range(tail_len + 1):
        for t in itertools.product(ALPHABET, repeat=n):
            add("[ref: " + "".join(t))
    n_exh = len(out)
    prefixes = ["[ref: ", "[ref:", "[ref:  ", "[Ref: ", "[REF: ", "[ref : ", " [ref: ", "x[ref: ", "[[ref: ", "ref: ", "[ref; ", "(ref: ", "[ref:\t", "[ref: [ref: "]
    digits = ["", "0", "1", "9", "00", "01", "10", "42", "007", "123456789", "999999999", "1000000000", "4294967294", "4294967295", "4294967296",
              "4294967305", "9999999999", "0000000001", "00000000001", "12345678901", "99999999999", "٣", "1٣", "٣1", "1x", "x1", "-1", "+1", "1 ", " 1", "1_0", "0x10", "1e3"]
    closers = ["]", "", "] ", "]]", " ]", "x]", ")", "] [ref: 7]"]
    tails = ["", " msg", " [ref: 2] later"]
    for p in prefixes:
        for d in digits:
            for c in closers:
                for t in tails:
                    add(p + d + c + t)
    return out, n_exh


def kani_parse_u32():
    """thorough tier: complete (operand-width bounded) Kani proof of str::parse::<u32> on 1..=10 ASCII digits."""
    scratch = "/var/tmp/verif-kani-parse-%d" % os.getpid()
    shutil.rmtree(scratch, ignore_errors=True)
    try:
        shutil.copytree(os.path.join(ROOT, "kani", "parse_u32"), scratch + "/crate")
        env = dict(os.environ, CARGO_TARGET_DIR=scratch + "/target", CARGO_NET_OFFLINE="true")
        t0 = time.time()
        r = subprocess.run(["cargo", "kani", "--harness", "parse_u32_on_digit_strings"], cwd=scratch + "/crate", env=env, capture_output=True, text=True, timeout=3000)
        out = r.stdout + r.stderr
        ok = "VERIFICATION:- SUCCESSFUL" in out
        import re
        m = re.search(r"\*\* (\d+) of (\d+) failed", out)
        return {"backend": "kani 0.68 / cbmc", "harness": "kani/parse_u32: parse_u32_on_digit_strings", "successful": ok,
                "checks": int(m.group(2)) if m else None, "failed": int(m.group(1)) if m else None, "bound": "1..=10 digits, unwind 12 with unwinding assertions (complete for this input class)",
                "wall_s": round(time.time() - t0, 1)}
    except Exception as e:
        return {"error": repr(e)}
    finally:
        shutil.rmtree(scratch, ignore_errors=True)


def run(tier, seed):
    t0 = time.time()
    gen = os.environ.get("VERIF_GEN") or os.path.join(ROOT, "generated")
    os.makedirs(gen, exist_ok=True)
    res = {"bounded": True, "violations": [], "obligations": 0, "discharged": 0}
    if tier == "thorough":
        kp = kani_parse_u32()
        res["kani_parse_u32"] = kp
        if kp.get("successful"):
            res["obligations"] += 1
            res["discharged"] += 1
    # 1. verify + compile the oracle with Verus
    oracle = os.path.join(gen, "c12_oracle")
    src = open(os.path.join(ROOT, "spec", "c12_oracle_main.rs")).read().replace("//@TOKEN@", open(os.path.join(ROOT, "spec", "token.rs")).read())
    with open(os.path.join(gen, "c12_oracle.rs"), "w") as f:
        f.write(src)
    r = subprocess.run(["verus", os.path.join(gen, "c12_oracle.rs"), "--triggers-mode", "silent", "--compile", "-o", oracle],
                       capture_output=True, text=True, cwd=gen)
    if "0 errors" not in r.stdout or not os.path.exists(oracle):
        res["undecided"] = "oracle did not verify/compile: " + (r.stdout + r.stderr)[-400:]
        return res
    import re
    m = re.search(r"(\d+) verified, 0 errors", r.stdout)
    res["oracle_verified_fns"] = int(m.group(1)) if m else 0
    res["obligations"] += res["oracle_verified_fns"]
    res["discharged"] += res["oracle_verified_fns"]
    # 2. build the real code (library) from the current tree in a scratch copy
    scratch = os.environ.get("VERIF_SCRATCH", "/var/tmp/verif-scratch-%d" % os.getpid())
    shutil.rmtree(scratch, ignore_errors=True)
    os.makedirs(scratch)
    try:
        subprocess.run(["rsync", "-a", "--exclude", "target", "--exclude", ".git", REPO + "/", scratch + "/repo/"], check=True)
        env = dict(os.environ, CARGO_TARGET_DIR=scratch + "/target", CARGO_NET_OFFLINE="true")
        b = subprocess.run(["cargo", "build", "--lib", "--release", "--offline"], cwd=scratch + "/repo", env=env, capture_output=True, text=True)
        if b.returncode != 0:
            res["undecided"] = "cargo build --lib failed: " + b.stderr[-400:]
            return res
        with open(scratch + "/harness.rs", "w") as f:
            f.write(HARNESS)
        c = subprocess.run(["rustc", "--edition", "2021", "-O", scratch + "/harness.rs", "--extern", "breadlog=%s/target/release/libbreadlog.rlib" % scratch,
                            "-L", "dependency=%s/target/release/deps" % scratch, "-o", scratch + "/harness"], capture_output=True, text=True)
        if c.returncode != 0:
            res["undecided"] = "harness did not compile: " + c.stderr[-400:]
            return res
        cands, n_exh = candidates(tier)
        data = "\n".join(cands) + "\n"
        o = subprocess.run([oracle], input=data, capture_output=True, text=True).stdout.split("\n")
        h = subprocess.run([scratch + "/harness"], input=data, capture_output=True, text=True).stdout.split("\n")
    finally:
        shutil.rmtree(scratch, ignore_errors=True)
    if len(o) < len(cands) or len(h) < len(cands):
        res["undecided"] = "oracle/harness produced %d/%d lines for %d candidates" % (len(o), len(h), len(cands))
        return res
    accepted = 0
    bad = []
    for s, a, b_ in zip(cands, o, h):
        if a.startswith("Some"):
            accepted += 1
        if a != b_:
            bad.append((s, a, b_))
    res.update({
        "evaluations": len(cands),
        "distinct_nontrivial": accepted + sum(1 for s in cands if s.startswith("[ref:")),
        "rule": "every string of length <= %d over the alphabet %s; `[ref: ` followed by every string of length <= %d over it; and the product of %d near-miss "
                "prefixes x digit strings at 0/1/9/10/11 digits and the u32 boundary x closers x tails. Each candidate is the start of the message literal of "
                "`info!(\"...\")`, parsed by the real breadlog::parse_rust; verdict compared with the Verus-verified oracle. non-trivial = accepted by the rule or "
                "starting with `[ref:`" % (5 if tier == "quick" else 6, "".join(ALPHABET), 4 if tier == "quick" else 5, 14),
        "samples": [{"input": s, "oracle": a, "real": b_} for s, a, b_ in list(zip(cands, o, h))[n_exh:n_exh + 400:57]],
        "exhaustive": True,
        "accepted_by_rule": accepted,
        "disagreements": len(bad),
        "disagreement_inputs": [b0[0] for b0 in bad[:300]],
        "wall_s": round(time.time() - t0, 1),
    })
    for s, a, b_ in bad[:5]:
        res["violations"].append({
            "label": "C12.conform", "obligation_id": "C12.conform @ src/parser/code_parser.rs::LogRefEntry::extract_reference",
            "msg": "real extraction disagrees with the token rule", "src": "src/parser/code_parser.rs", "sline": None,
            "site_text": "message literal starting with %r: rule says %s, real code says %s" % (s, a, b_),
            "extra": {"failing_input": s, "oracle": a, "real": b_},
        })
    return res
