"""C06 — BOUNDED stand-in for the one function neither verifier can take (pest's generated parser): on an enumerated family of
canonical statements the real release binary is run edit -> check -> edit, and the real library re-reads every edited file.
Checked per statement and mode: the edit exits 0 and inserts exactly one token of the mode's shape (removing it gives the original
bytes), --check then exits 0, a second edit changes no byte, and the library reads the statement back with exactly the ID in the
inserted token.  Labelled bounded; never counted as proved."""
import os
import re
import shutil
import subprocess
import itertools
import time

ROOT = os.path.dirname(os.path.dirname(os.path.abspath(__file__)))
REPO = os.environ.get("VERIF_REPO", "/repo")

HARNESS = r'''
use std::io::BufRead;
fn main() {
    // one file path per input line; output: `<path>\t<n entries>\t<reference of entry 0 or ->`
    let stdin = std::io::stdin();
    let mut out = String::new();
    for line in stdin.lock().lines() {
        let p = line.unwrap();
        let code = std::fs::read_to_string(&p).unwrap();
        let es = breadlog::parse_rust(&code);
        let r = if es.len() >= 1 { match es[0].reference() { Some(n) => n.to_string(), None => "-".to_string() } } else { "-".to_string() };
        out.push_str(&format!("{}\t{}\t{}\n", p, es.len(), r));
    }
    print!("{}", out);
}
'''


def statements(tier):
    paths = ["info", "log::info"]
    targets = ["", 'target: "net", ']
    kvs = ["", "a = 1; ", 'a = 1, b = "x;y"; ', "user; ", "user, peer:?; ", "err:err = e, n = 42; "]
    msgs = ["plain message", "with {} placeholder", 'quote \\" inside', "bracket [ref-like: 3] text", "ünïcödé ✓ text", "", "  leading blanks"]
    tails = ["", ", value", ", a, b"]
    layouts = ["one", "wrapped"] + (["comment"] if tier == "thorough" else [])
    out = []
    for pa, t, kv, m, ta, lay in itertools.product(paths, targets, kvs, msgs, tails, layouts):
        if "{}" not in m and ta:
            continue
        if lay == "one":
            st = '%s!(%s%s"%s"%s);' % (pa, t, kv, m, ta)
        elif lay == "wrapped":
            st = '%s!(\n        %s\n        %s\n        "%s"%s\n    );' % (pa, t.strip(), kv.strip(), m, ta)
        else:
            st = '%s!( /* c */ %s // note\n        %s"%s"%s);' % (pa, t, kv, m, ta)
        out.append(st)
    return out


def run(tier, seed):
    t0 = time.time()
    res = {"bounded": True, "violations": [], "obligations": 0, "discharged": 0}
    from . import e2e
    bld = e2e.build()
    if not bld["ok"]:
        res["undecided"] = "cargo build failed: " + bld["err"]
        return res
    scratch = "%s/c06_%d" % (bld["scratch"], int(time.time() * 1000) % 100000)
    os.makedirs(scratch)
    try:
        binp = bld["bin"]
        with open(scratch + "/harness.rs", "w") as f:
            f.write(HARNESS)
        c = subprocess.run(["rustc", "--edition", "2021", "-O", scratch + "/harness.rs", "--extern", "breadlog=%s/release/libbreadlog.rlib" % bld["target"],
                            "-L", "dependency=%s/release/deps" % bld["target"], "-o", scratch + "/harness"], capture_output=True, text=True)
        if c.returncode != 0:
            res["undecided"] = "harness did not compile: " + c.stderr[-300:]
            return res
        sts = statements(tier)
        evaluations = 0
        samples = []
        for structured in (False, True):
            proj = scratch + ("/ps" if structured else "/pu")
            os.makedirs(proj + "/src")
            with open(proj + "/Breadlog.yaml", "w") as f:
                f.write("source_dir: ./src\nuse_cache: false\nrust:\n  structured: %s\n  log_macros:\n    - module: log\n      name: info\n" % ("true" if structured else "false"))
            orig = {}
            for i, st in enumerate(sts):
                p = "%s/src/s%04d.rs" % (proj, i)
                txt = "fn f() {\n    %s\n}\n" % st
                orig[p] = txt
                with open(p, "w") as f:
                    f.write(txt)

            def viol(what, p=None):
                st = sts[int(os.path.basename(p)[1:5])] if p else None
                res["violations"].append({"label": "C06.roundtrip", "obligation_id": "C06.roundtrip @ parser+rewriter (bounded run)", "msg": what,
                                          "src": "src/parser/rust_grammar.pest", "sline": None,
                                          "site_text": "%s mode, statement: %s" % ("structured" if structured else "unstructured", st),
                                          "extra": {"failing_input": st, "structured": structured, "what": what}})
            e1 = subprocess.run([binp, "-c", proj + "/Breadlog.yaml"], capture_output=True, text=True)
            if e1.returncode != 0:
                viol("first edit run exits %d" % e1.returncode)
                continue
            after = {p: open(p).read() for p in orig}
            tok = re.compile(r"ref = (\d+)[;,] " if structured else r"\[ref: (\d+)\] ")
            ids = {}
            for p, old in orig.items():
                new = after[p]
                evaluations += 1
                ok = False
                for m in tok.finditer(new):
                    if new[:m.start()] + new[m.end():] == old:
                        ids[p] = int(m.group(1))
                        ok = True
                        break
                if not ok:
                    viol("edit is not the insertion of exactly one reference token", p)
            if len(set(ids.values())) != len(ids):
                viol("duplicate IDs assigned")
            c1 = subprocess.run([binp, "-c", proj + "/Breadlog.yaml", "--check"], capture_output=True, text=True)
            if c1.returncode != 0:
                viol("--check after a successful edit exits %d" % c1.returncode)
            e2 = subprocess.run([binp, "-c", proj + "/Breadlog.yaml"], capture_output=True, text=True)
            for p in orig:
                if open(p).read() != after[p]:
                    viol("second edit run changed the file", p)
            # read back through the real library (unstructured reader: parse_rust's fixed configuration is unstructured)
            # (parse_rust's fixed configuration is unstructured: in structured style it still tells whether the edited statement is RECOGNISED)
            h = subprocess.run([scratch + "/harness"], input="\n".join(sorted(ids)) + "\n", capture_output=True, text=True)
            for ln in h.stdout.strip().split("\n"):
                if not ln:
                    continue
                p, n, r = ln.split("\t")
                if n != "1":
                    viol("after the edit the statement is recognised %s times by the parser" % n, p)
                elif not structured and r != str(ids[p]):
                    viol("statement read back with reference %s, inserted ID was %d" % (r, ids[p]), p)
            samples.append({"mode": "structured" if structured else "unstructured", "statement": sts[7], "after_edit": after["%s/src/s0007.rs" % proj].split("\n")[1].strip()})
        res.update({
            "evaluations": evaluations, "distinct_nontrivial": evaluations,
            "rule": "product of macro path form x target x key-value shapes (valued, shorthand, modifiers, `;`/`,` inside string values) x message contents "
                    "(placeholders, escaped quotes, ref-like text, non-ASCII, empty) x trailing arguments x layout, in both reference styles; one statement per file; "
                    "every statement is non-trivial (it lacks a reference)",
            "samples": samples, "exhaustive": True, "statements": len(sts), "wall_s": round(time.time() - t0, 1),
        })
        res["violations"] = res["violations"][:5]
    finally:
        shutil.rmtree(scratch, ignore_errors=True)
    return res
