"""Unit `entry`: CodePosition / LogRefEntry accessors and the inserted token text (code_parser.rs)."""
from weave.weaver import Unit
from . import common


def build():
    u = Unit("entry")
    u.include("shims/prelude.rs")
    common.entry_types(u)
    u.include("spec/entries.rs")
    common.entry_accessors(u)
    u.raw("fn main() {}\n")
    return u
