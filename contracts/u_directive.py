"""Unit `directive`: parser/code_parser.rs — the directive scan (check_for_boolean_directive and its two wrappers),
get_name_for_ref_kvp_key and LogRefEntry::extract_reference, over assumed std / regex string semantics."""
import re
from weave.weaver import Unit, LostAnchor
from weave import rules, lexer
from . import common
from .common import CP

DIRECTIVE_DEFS = """verus! {
pub open spec fn ignore_name() -> Seq<char> { seq!['b','r','e','a','d','l','o','g',':','i','g','n','o','r','e'] }
pub open spec fn no_kvp_name() -> Seq<char> { seq!['b','r','e','a','d','l','o','g',':','n','o','-','k','v','p'] }
pub open spec fn ref_key() -> Seq<u8> { seq![114u8, 101u8, 102u8] }   // "ref"
// C14: with the Rust comment pattern (pattern id 1)
pub open spec fn directive_before(code: Seq<u8>, pos: int, name: Seq<char>) -> bool { directive_spec(code, pos, 1, name) }
// C12: what extract_reference reads = group 1 of the anchored token pattern (pattern id 2), parsed as u32
pub open spec fn extract_spec(lit: Seq<u8>) -> Option<u32> {
    match regex_groups(2, decode_utf8(lit)) {
        None => None,
        Some(gs) => parse_u32_spec(encode_utf8(gs[1].unwrap())),
    }
}
// the token pattern has exactly one group and it always participates in a match
pub proof fn axiom_token_pattern(s: Seq<char>)
    ensures regex_groups(2, s).is_some() ==> regex_groups(2, s).unwrap().len() == 2 && regex_groups(2, s).unwrap()[1].is_some()
{ admit(); }
#[verifier::external_body]
pub struct Regex { _p: () }
impl Regex { pub uninterp spec fn pat(&self) -> int; }
}
"""

KNOWN_PATTERNS = {r'r"\/\/(.+)|\/\*(.+)\*\/"': 1, r'r"^\[ref: ([0-9]{1,10})\]"': 2}


def static_shims(u, statics):
    """shim accessors for lazy statics: Regex::new(<known literal>) or String::from(<literal>)"""
    for name, typ, init in statics:
        m = re.match(r'Regex::new\(\s*(r?"(?:\\.|[^"\\])*")\s*\)\.unwrap\(\)$', init)
        if m and typ == "Regex":
            pid = KNOWN_PATTERNS.get(m.group(1))
            if pid is None:
                raise LostAnchor("regular expression %s of %s is not one of the two patterns the regex shim gives a meaning to" % (m.group(1), name))
            u.raw("// lazy static %s = Regex::new(%s)\n#[verifier::external_body]\npub fn %s_shim() -> (r: &'static Regex) ensures r.pat() == %d { unimplemented!() }\n"
                  % (name, m.group(1).replace("\\", "\\\\"), name, pid), "static shim")
            continue
        m = re.match(r'String::from\(\s*("(?:\\.|[^"\\])*")\s*\)$', init)
        if m and typ == "String":
            u.raw("// lazy static %s = String::from(%s)\n#[verifier::external_body]\npub fn %s_shim() -> (r: &'static String) ensures r@ == %s@ { unimplemented!() }\n"
                  % (name, m.group(1), name, m.group(1)), "static shim")
            continue
        raise LostAnchor("lazy static %s: unsupported initialiser %s" % (name, init))


def wrappers(u):
    out = []
    for fn, const, namefn in (("check_for_ignore_directive", "IGNORE_DIRECTIVE_TEXT", "ignore_name()"), ("check_for_no_kvp_directive", "NO_KVP_DIRECTIVE_TEXT", "no_kvp_name()")):
        f = u.real_fn(CP, fn, props=("C14", "C17"))
        rules.sig(f, ret="r")
        f.requires += ["subject_pos <= code.spec_bytes().len()", "is_boundary(code.spec_bytes(), subject_pos as int)", "line_comment_extractor.pat() == 1"]
        f.ensures.append(("C14.scan", "r == directive_before(code.spec_bytes(), subject_pos as int, %s)" % namefn))
        lit = re.search(r'const\s+%s\s*:\s*&str\s*=\s*("[^"]*")' % const, f.body)
        if not lit:
            raise LostAnchor("directive text constant in %s" % fn)
        f.before_stmt("check_for_boolean_directive(", "proof { reveal_strlit(%s); assert(%s@ =~= %s); }\n    " % (lit.group(1), lit.group(1), namefn))
        out.append(f)
    return out


def ref_key_fn(u):
    f = u.real_fn(CP, "get_name_for_ref_kvp_key", props=("C13", "C17"))
    rules.sig(f, ret="r")
    statics = rules.r_lazy_static(f)
    f.ensures.append(("C13.key", "r.spec_bytes() == ref_key() && r@ == seq!['r', 'e', 'f']"))
    f.at_end(' ') if False else None
    f.at_start(' proof { reveal_strlit("ref"); assert("ref"@ =~= seq![\'r\', \'e\', \'f\']); lemma_ref_key_bytes(); }')
    return f, statics


def extract_fn(u):
    f = u.real_fn(CP, "extract_reference", scope=r"impl LogRefEntry\b", owner="LogRefEntry", props=("C01", "C03", "C05", "C06", "C12", "C13", "C17"))
    rules.sig(f, ret="r")
    statics = rules.r_lazy_static(f)
    # `.captures_iter(x).next()` is the first match = `.captures(x)`
    n = f.replace_all(r"\.captures_iter\s*\(\s*(\w+)\s*\)\s*\.next\(\)", r".captures(\1)", "R9", regex=True, min_count=1)
    # `capture[1]` -> group accessor (Index panics when the group did not participate)
    f.replace_all(r"\bcapture\[(\d+)\]\s*\.parse::<u32>\(\)", r"str_parse_u32(capture.group_str(\1))", "R9", regex=True, min_count=1)
    rules.r9_str_len(f, ["log_literal"])
    # which statements count as carrying a reference (and which ID) underlies C01 (existing IDs), C03 (a referenced statement receives nothing),
    # C05 (what lacks a reference), C06 (read back) as well as C12 itself
    f.ensures.append(("C12.extract,C01.existing,C03.existing,C05.missing,C06.readback", "r == extract_spec(log_literal.spec_bytes())"))
    f.at_start(" proof { encode_utf8_decode_utf8(log_literal@); axiom_token_pattern(log_literal@); }")
    return f, statics


def build():
    u = Unit("directive")
    u.include("shims/prelude.rs")
    common.entry_types(u)
    u.include("shims/strshim.rs")
    u.raw(DIRECTIVE_DEFS)
    u.include("shims/scanshim.rs")
    u.raw("verus! {\npub proof fn lemma_ref_key_bytes() ensures encode_utf8(seq!['r', 'e', 'f']) == ref_key() { admit(); }\n")   # ASCII bytes of "ref"
    # ---- the scan ---------------------------------------------------------------------------------------------------
    f = u.real_fn(CP, "check_for_boolean_directive", props=("C14", "C17"))
    rules.sig(f, ret="r")
    n16 = rules.r16_first_char_map_or(f)
    if n16 != 1:
        raise LostAnchor("directive scan: first-character computation not found (have %d)" % n16)
    # R9: postfix chain of str methods without Verus specs on `<m>.as_str()` -> nested shim calls, in the order written
    for h in re.finditer(r"(\w+)\s*\.as_str\(\)((?:\s*\.(?:to_lowercase|trim)\(\))+)(\s*\.(starts_with|ends_with|contains)\(\s*(\w+)\s*\))?", f.mbody):
        expr = "%s.as_str()" % h.group(1)
        is_string = False
        for meth in re.findall(r"\.(to_lowercase|trim)\(\)", h.group(2)):
            arg = expr + (".as_str()" if is_string else "")
            if meth == "to_lowercase":
                expr, is_string = "str_to_lowercase(%s)" % arg, True
            else:
                expr, is_string = "str_trim(%s)" % arg, False
        if is_string:
            expr += ".as_str()"
        if h.group(3):
            # a weaker comparison than `==`: given its std meaning so that the scan's contract can fail on it
            expr = "strref_%s(%s, %s)" % (h.group(4), expr, h.group(5))
        f.replace(h.start(), h.end(), expr, "R9", "str method chain %s%s -> shim calls" % (h.group(2).strip(), (h.group(3) or "").strip()))
    rules.r16_map_or(f)
    rules.r9_str_len(f, ["line", "code", "directive_name"])      # str::len is accepted by Verus but unspecified: give it its meaning
    rules.r9_method_to_fn(f, "trim", "str_trim")
    rules.r9_method_to_fn(f, "is_empty", "str_is_empty")
    f.replace_all(r"str_trim\(&line\)", "str_trim(line)", "R9", regex=False) if False else None
    fors = [l for l in f.loops() if l[0] == "for"]
    if len(fors) != 2:
        raise LostAnchor("directive scan: expected 2 for loops")
    name = "directive_name@"
    pat = "line_comment_extractor.pat()"

    def lines_vec(expr):
        m = re.match(r"^(.+?)\s*\.lines\(\)\s*\.rev\(\)$", expr, re.S)
        if not m:
            raise LostAnchor("directive scan iterates %r, expected `<text>.lines().rev()`" % expr)
        # R6 inside the header: `code[..E]` -> str_slice(code, 0, E)
        txt = re.sub(r"(\w+)\[\s*\.\.\s*([\w\s\+]+?)\s*\]", r"str_slice(\1, 0, \2)", m.group(1))
        return "str_lines_rev(%s)" % txt

    def groups_vec(expr):
        m = re.match(r"^(\w+)\s*\.iter\(\)$", expr)
        if not m:
            raise LostAnchor("directive scan iterates %r, expected `<captures>.iter()`" % expr)
        return "%s.groups_vec()" % m.group(1)
    rules.r_for_vec_shim(f, fors[0][1], lines_vec, [
        "ls == lines_rev(code.spec_bytes().subrange(0, char_end(code.spec_bytes(), subject_pos as int)))", "0 <= __li <= __vli.len()", "__vli@.len() == ls.len()", "forall|i: int| 0 <= i < __vli@.len() ==> (#[trigger] __vli@[i])@ == ls[i]",
        ("C14.scan", "first_line == (__li == 0)"),
    ], "__li", ensures=[("C14.scan", "!scan_from(ls, 1, %s, %s)" % (pat, name))],
        except_break=[("C14.scan", "scan_from(ls, 1, %s, %s) == scan_from(ls, if __li == 0 { 1int } else { __li as int }, %s, %s)" % (pat, name, pat, name))])
    rules.r_for_vec_shim(f, fors[1][1], groups_vec, [
        "ls == lines_rev(code.spec_bytes().subrange(0, char_end(code.spec_bytes(), subject_pos as int)))", "0 <= __gi <= __vgi.len()", "__vgi@.len() == gs.len()", "forall|i: int| 0 <= i < __vgi@.len() ==> group_view(#[trigger] __vgi@[i]) == gs[i]",
        ("C14.scan", "!group_hit(gs, %s, __gi as int)" % name),
        "gs == regex_groups(%s, trim_spec(ls[__li - 1])).unwrap()" % pat,
        "1 <= __li <= ls.len() && __li >= 2 && trim_spec(ls[__li - 1]).len() > 0 && regex_groups(%s, trim_spec(ls[__li - 1])).is_some()" % pat,
        ("C14.scan", "scan_from(ls, 1, %s, %s) == scan_from(ls, __li - 1, %s, %s)" % (pat, name, pat, name)),
    ], "__gi")
    rules.r6_str_slice(f, ["code"])
    f.requires += ["subject_pos <= code.spec_bytes().len()", "is_boundary(code.spec_bytes(), subject_pos as int)"]
    f.ensures.append(("C14.scan", "r == directive_spec(code.spec_bytes(), subject_pos as int, %s, %s)" % (pat, name)))
    f.before_stmt("return true;", "proof { assert(group_view(__vgi@[__gi - 1]) == gs[__gi - 1]);\n"
                  "                                assert(gs[__gi - 1].is_some() && trim_spec(lower_spec(gs[__gi - 1].unwrap())) == directive_name@); // [C14.scan]\n"
                  "                                assert(group_hit(gs, directive_name@, gs.len() as int)); }\n                                ")
    f.before_stmt("let mut first_line = true;", "proof { axiom_boundary_ends(code.spec_bytes()); }\n    ")
    # ghost: the reversed lines being scanned
    f.insert_at(fors[0][1], "let ghost ls = lines_rev(code.spec_bytes().subrange(0, subject_end as int));\n    ")
    f.insert_at(fors[1][1], "let ghost gs = capture.groups();\n                ")
    wrappers(u)
    rk, st1 = ref_key_fn(u)
    u.raw("impl LogRefEntry {\n")
    ex, st2 = extract_fn(u)
    u.raw("}\n")
    static_shims(u, st1 + st2)
    u.raw("}\n")
    # C12: token rule + link lemma (token.rs without the region that duplicates the prelude's dec/digit)
    import os as _os
    tok = open(_os.path.join(_os.path.dirname(_os.path.dirname(_os.path.abspath(__file__))), "spec", "token.rs")).read()
    tok = re.sub(r"//@STANDALONE-BEGIN.*?//@STANDALONE-END\n", "", tok, flags=re.S)
    u.raw(tok, "spec/token.rs")
    u.include("spec/token_link.rs")
    u.raw("fn main() {}\n")
    u.assume("str::lines().rev(), trim, to_lowercase, is_empty, regex captures: std / regex-crate semantics as uninterpreted spec functions (shims/scanshim.rs)")
    return u
