"""Unit `context`: config/context.rs — Context::new (YAML -> effective configuration, path resolution, lock read),
read_cached_next_reference_id, cache_next_reference_id, serde default functions.

The deserialisation shim's contract is *generated* from the serde attributes found in the real struct text
(DESIGN.md §3.3): a changed / removed `#[serde(default = "...")]` changes the assumed contract, and the
postconditions of Context::new (taken from C16) then fail."""
import re
from weave.weaver import Unit, LostAnchor, extract_item
from weave import rules
from . import common
from .common import CTX

IMPL = r"impl Context\b"


def serde_fields(struct_text):
    """-> [(field, type, serde_attr_or_None)] from a struct definition with attributes."""
    out = []
    attr = None
    body = struct_text[struct_text.index("{") + 1:struct_text.rindex("}")]
    for ln in body.split("\n"):
        s = ln.strip()
        if not s or s.startswith("///") or s.startswith("//"):
            continue
        m = re.match(r"#\[serde\((.*)\)\]$", s)
        if m:
            attr = m.group(1).strip()
            continue
        if s.startswith("#["):
            continue
        m = re.match(r"(?:pub\s+)?(\w+)\s*:\s*(.+?),?$", s)
        if m:
            out.append((m.group(1), m.group(2), attr))
            attr = None
    return out


def struct_level_default(struct_text):
    """True if the struct itself carries #[serde(default)] (every field optional)."""
    head = struct_text[:struct_text.index("{")]
    return bool(re.search(r"#\[serde\([^\]]*\bdefault\b[^\]]*\)\]", head))


def cache_axioms(u):
    """serde contract of the lock structure, generated from the real `Cache` definition: every field without a
    default is a required key."""
    text, _, _ = extract_item(CTX, r"pub struct Cache\b")
    fields = serde_fields(text)
    if [f for f, _, _ in fields] != ["next_reference_id"]:
        raise LostAnchor("struct Cache no longer has exactly the field next_reference_id")
    required = not struct_level_default(text) and all(a is None for _, _, a in fields)
    u.raw("""verus! {
// ---- serde_yaml::from_str::<Cache>: assumed contract GENERATED from the definition of `Cache` in context.rs ----
pub uninterp spec fn yaml_has__next_reference_id(s: Seq<char>) -> bool;
pub proof fn axiom_serde_cache(s: Seq<char>)
    ensures %s
{ admit(); }
pub proof fn axiom_serde_cache_all()
    ensures forall|s: Seq<char>| %s
{ admit(); }
}
""" % (("yaml_cache(s).is_some() ==> yaml_has__next_reference_id(s)" if required else "true"),
       ("(#[trigger] yaml_cache(s)).is_some() ==> yaml_has__next_reference_id(s)" if required else "#[trigger] yaml_cache(s) == yaml_cache(s)")), "generated: serde contract of Cache")


def serde_axioms(u):
    """Generate the assumed contract of serde_yaml::from_str::<Config> from the real attributes."""
    cfg_text, _, _ = extract_item(CTX, r"pub struct Config\b")
    rust_text, _, _ = extract_item(CTX, r"pub struct RustConfig\b")
    if "Default" not in re.search(r"#\[derive\(([^\]]*)\)\]", rust_text).group(1):
        raise LostAnchor("RustConfig no longer derives Default")
    clauses = []
    decls = []

    def default_clause(prefix, guard, field, ftype, attr, access):
        key = (prefix + field).replace(".", "__")
        decls.append("pub uninterp spec fn yaml_has__%s(s: Seq<char>) -> bool;" % key)
        if attr is None:
            # required key
            clauses.append("(%s ==> yaml_has__%s(s))" % (guard, key))
            return
        if attr == "skip":
            clauses.append("(%s ==> %s@ == Seq::<char>::empty())" % (guard, access) if ftype == "String" else "true")
            return
        m = re.match(r'default\s*=\s*"(\w+)"$', attr)
        if m:
            view = "@" if ftype.startswith("Vec<") else ""
            clauses.append("(%s && !yaml_has__%s(s) ==> %s%s == %s_spec())" % (guard, key, access, view, m.group(1)))
            return
        if attr == "default" and ftype != "RustConfig":
            # Default::default() of the field type
            dv = {"bool": "%s == false", "String": "%s@ == Seq::<char>::empty()", "u32": "%s == 0"}.get(ftype)
            if dv is None and ftype.startswith("Vec<"):
                dv = "%s@.len() == 0"
            if dv is None:
                raise LostAnchor("#[serde(default)] on field %s of unhandled type %s" % (field, ftype))
            clauses.append("(%s && !yaml_has__%s(s) ==> %s)" % (guard, key, dv % access))
            return
        if attr == "default":
            # derived Default of RustConfig
            clauses.append("(%s && !yaml_has__%s(s) ==> %s.structured == false && %s.log_macros@ == Seq::<RustLogMacro>::empty()"
                           " && %s.extensions@ == Seq::<String>::empty())" % (guard, key, access, access, access))
            return
        raise LostAnchor("unhandled serde attribute %r on %s" % (attr, field))

    for field, ftype, attr in serde_fields(cfg_text):
        default_clause("", "true", field, ftype, attr, "c.%s" % field)
    for field, ftype, attr in serde_fields(rust_text):
        default_clause("rust.", "yaml_has__rust(s)", field, ftype, attr, "c.rust.%s" % field)
    text = """verus! {
// ---- serde_yaml::from_str::<Config>: assumed contract GENERATED from the serde attributes in context.rs ----
%s
pub uninterp spec fn yaml_config(s: Seq<char>) -> Option<Config>;
pub proof fn axiom_serde_config(s: Seq<char>)
    ensures yaml_config(s).is_some() ==> ({
        let c = yaml_config(s).unwrap();
        %s
    })
{ admit(); }
}
""" % ("\n".join(decls), "\n        && ".join(clauses))
    u.raw(text, "generated: serde contract")
    u.assume("serde_yaml::from_str::<Config>: field omitted => `default = \"f\"` gives f(), `#[serde(default)]` gives Default::default(), `skip` gives Default; contract generated from the attributes in context.rs")


DEFAULTS_SPEC = """verus! {
// C16: the documented defaults (what the guide says)
pub open spec fn default_use_cache_spec() -> bool { true }
pub open spec fn default_rust_structured_spec() -> bool { false }
pub open spec fn is_rs(s: Seq<char>) -> bool { s == seq!['r', 's'] }
pub uninterp spec fn default_rust_extensions_spec() -> Seq<String>;
pub proof fn axiom_default_extensions()
    ensures default_rust_extensions_spec().len() == 1 && is_rs(default_rust_extensions_spec()[0]@)
{ admit(); }
}
"""


def defaults(u):
    u.raw(DEFAULTS_SPEC)
    u.raw("verus! {\n")
    f = u.real_fn(CTX, "default_use_cache", props=("C16",))
    rules.sig(f, ret="r")
    f.ensures.append(("C16.defaults", "r == default_use_cache_spec()"))
    f = u.real_fn(CTX, "default_rust_structured", props=("C16",))
    rules.sig(f, ret="r")
    f.ensures.append(("C16.defaults", "r == default_rust_structured_spec()"))
    f = u.real_fn(CTX, "default_rust_extensions", props=("C16", "C15"))
    rules.sig(f, ret="r")
    f.ensures.append(("C16.defaults", "r@.len() == 1 && is_rs(r@[0]@)"))
    f.at_start(' proof { reveal_strlit("rs"); assert("rs"@ =~= seq![\'r\', \'s\']); }')
    u.raw("}\n")


def lock_value_spec():
    return """verus! {
// ---- lock file content model -----------------------------------------------------------------------------
pub uninterp spec fn yaml_cache(s: Seq<char>) -> Option<Cache>;        // serde_yaml::from_str::<Cache>
pub uninterp spec fn yaml_of_cache(c: Cache) -> Seq<char>;             // serde_yaml::to_string(&Cache)
pub uninterp spec fn decode(b: Seq<u8>) -> Seq<char>;                  // the text of a readable file: encode_utf8(decode(b)) == b
// what a run starting now would read from the lock file (C16: None when disabled, absent, unreadable or unparsable)
pub open spec fn lock_value(w: World, use_cache: bool, lp: Seq<char>) -> Option<u32> {
    if !use_cache || !w.fs.dom().contains(lp) || !readable(lp) { None }
    // C16: a lock that cannot be parsed, or that does not carry the next ID, is ignored
    else if yaml_cache(decode(w.fs[lp])).is_some() && yaml_has__next_reference_id(decode(w.fs[lp])) { Some(yaml_cache(decode(w.fs[lp])).unwrap().next_reference_id) }
    else { None }
}
pub proof fn axiom_decode(s: Seq<char>) ensures decode(encode_utf8(s)) == s { admit(); }
pub proof fn axiom_decode_all() ensures forall|s: Seq<char>| decode(#[trigger] encode_utf8(s)) == s { admit(); }
}
"""


def cache_writer(u):
    """Context::cache_next_reference_id under contract (also exported as a stub to unit `generate`)."""
    f = u.real_fn(CTX, "cache_next_reference_id", scope=IMPL, owner="Context", props=("C02", "C04", "C07", "C15", "C16", "C17"))
    rules.sig(f, ret=None, world=True)
    rules.r1_logs(f)
    rules.r13_reroot(f, {"std::path::": "stdshim::path::", "std::fs::": "stdshim::fs::"})
    rules.r8_thread(f, [r"\.exists\(", r"std::fs::(?:remove_file|copy|rename)\("])
    # thread the World into the (re-rooted) write
    for h in re.finditer(r"std::fs::write\s*\(", f.mbody):
        from weave import lexer
        po = h.end() - 1
        pc = lexer.match_close(f.body, po)
        f.insert_at(pc, ", Tracked(w)", "R8", "World arg")
    rules.r9_method_to_fn(f, "insert_str", "string_insert_str", by_mut=True)
    f.requires += [
        ("C04.nowrite", "!old(w).check_mode"),
        ("C07.frame", "atomic_inv(*old(w))"),
        # the directory handed in is the configuration directory of this run
        ("C15.lock", "directory_path@ == config_dir()"),
    ]
    f.ensures += [
        ("C04.frame", "same_but_fs(World { log: final(w).log, ..*old(w) }, *final(w))"),
        ("C15.lock", "forall|p: Seq<char>| p != lock_path() ==> (#[trigger] final(w).fs.dom().contains(p)) == old(w).fs.dom().contains(p)"),
        ("C15.lock", "forall|p: Seq<char>| p != lock_path() ==> (#[trigger] final(w).fs[p]) == old(w).fs[p]"),
        ("C16.nocache", "!self.config.use_cache ==> final(w).fs == old(w).fs"),
        ("C02.lockwrite", "self.config.use_cache ==> (final(w).fs.dom().contains(lock_path()) && final(w).fs[lock_path()] == lock_bytes(id)) || lock_write_failed()"),
    ]
    f.at_start(' proof { reveal_strlit("Breadlog.lock"); assert("Breadlog.lock"@ =~= lock_name()); }')
    return f


def build():
    u = Unit("context")
    u.include("shims/prelude.rs")
    u.include("shims/io.rs")
    u.include("shims/stdshim.rs")

    de_serde = common.de_serde
    for item in (r"pub struct RustLogMacro\b", r"pub struct RustConfig\b", r"pub struct Config\b", r"pub struct Cache\b", r"pub struct Context\b"):
        u.real_item(CTX, item, de_serde, "serde/derive attributes read by the contract generator, then dropped")
    serde_axioms(u)
    u.raw(lock_value_spec())
    cache_axioms(u)
    u.include("shims/yaml.rs")
    defaults(u)
    u.raw("verus! {\nimpl Context {\n")
    pub_const = lambda t: re.sub(r"(?m)^(\s*)const ", r"\1pub const ", re.sub(r"#\[allow\(dead_code\)\]\s*", "", t))
    u.real_item(CTX, r"const CACHE_FILENAME\b", pub_const)
    u.real_item(CTX, r"const CACHE_EDIT_WARNING\b", pub_const)
    cache_writer(u)
    # ---- read_cached_next_reference_id ----------------------------------------------------------------
    f = u.real_fn(CTX, "read_cached_next_reference_id", scope=IMPL, owner="Context", props=("C01", "C02", "C04", "C15", "C16", "C17"))
    rules.sig(f, ret="r", world=True)
    rules.r1_logs(f)
    rules.r13_reroot(f, {"std::path::": "stdshim::path::", "std::fs::": "stdshim::fs::"})
    rules.r8_thread(f, [r"\.exists\(", r"std::fs::(?:read_to_string|remove_file|copy|rename|write)\("])
    f.ensures += [
        ("C04.frame", "final(w).fs == old(w).fs && same_but_fs(World { log: final(w).log, ..*old(w) }, *final(w))"),
        # the value the allocator starts from when a lock is in use is exactly the one in the file (C01: "already ahead of every ID")
        ("C16.nocache,C16.corrupt,C15.lock,C01.lock", "r == lock_value(*old(w), config.use_cache, path_join(directory_path@, lock_name()))"),
    ]
    f.at_start(' proof { reveal_strlit("Breadlog.lock"); assert("Breadlog.lock"@ =~= lock_name()); }')
    f.after_stmt("if let Ok(cache_yaml) = std::fs::read_to_string(", "") if False else None
    # quantified forms at the start: no anchor on the shape of the read (if-let or match)
    f.at_start(" proof { axiom_decode_all(); axiom_serde_cache_all(); }")
    # ---- new --------------------------------------------------------------------------------------------
    f = u.real_fn(CTX, "new", scope=IMPL, owner="Context", props=("C01", "C04", "C15", "C16", "C17"))
    rules.sig(f, ret="res", world=True)
    rules.r1_logs(f)
    rules.r9_method_to_fn(f, "starts_with", "string_starts_with_char", arg_map={"std::path::": "stdshim::path::"})
    rules.r9_method_to_fn(f, "ends_with", "string_ends_with_char", arg_map={"std::path::": "stdshim::path::"})
    rules.r13_reroot(f, {"std::path::": "stdshim::path::", "use std::path;": "use stdshim::path;"})
    rules.r8_thread(f, [r"Context::read_cached_next_reference_id\("])
    f.replace_all(r"String::from_str\s*\(", "string_from_str(", "R9", regex=True)
    f.after_stmt_all(r"serde_yaml::from_str\(", lambda k, h: "", regex=True) if False else None
    f.at_start(" proof { axiom_serde_config(yaml@); axiom_default_extensions(); }")
    y = "yaml_config(yaml@)"
    f.ensures += [
        ("C04.frame", "final(w).fs == old(w).fs && same_but_fs(World { log: final(w).log, ..*old(w) }, *final(w))"),
        ("C16.errors", "res.is_ok() == %s.is_some()" % y),
        ("C16.defaults", "res.is_ok() && !yaml_has__use_cache(yaml@) ==> res.unwrap().config.use_cache == true"),
        ("C16.defaults", "res.is_ok() && yaml_has__rust(yaml@) && !yaml_has__rust__structured(yaml@) ==> res.unwrap().config.rust.structured == false"),
        ("C16.defaults", "res.is_ok() && yaml_has__rust(yaml@) && !yaml_has__rust__extensions(yaml@) ==> "
         "res.unwrap().config.rust.extensions@.len() == 1 && is_rs(res.unwrap().config.rust.extensions@[0]@)"),
        ("C16.values", "res.is_ok() ==> res.unwrap().config.use_cache == %s.unwrap().use_cache && res.unwrap().config.rust == %s.unwrap().rust" % (y, y)),
        ("C15.rel", "res.is_ok() ==> res.unwrap().config.source_dir@ == "
         "(if %s.unwrap().source_dir@.len() > 0 && %s.unwrap().source_dir@[0] == '/' { %s.unwrap().source_dir@ } else { path_join(config_dir@, %s.unwrap().source_dir@) })" % (y, y, y, y)),
        ("C15.lock", "res.is_ok() ==> res.unwrap().config.config_dir@ == config_dir@"),
        ("C16.nocache,C16.corrupt,C15.lock,C01.lock", "res.is_ok() ==> res.unwrap().cached_next_reference_id == "
         "lock_value(*old(w), %s.unwrap().use_cache, path_join(config_dir@, lock_name()))" % y),
        ("C04.dispatch", "res.is_ok() ==> res.unwrap().check_mode == check_mode"),
    ]
    u.raw("}\n}\n")
    u.raw("fn main() {}\n")
    return u
