"""Unit `find`: parser/rust_parser.rs — rust_log_ref_finder::{macro_of_interest, find} over the pest shim whose
tree-shape facts are generated from rust_grammar.pest; parser/code_parser.rs — directive scan, extract_reference."""
import os
import re
from weave.weaver import Unit, LostAnchor, REPO
from weave import rules, lexer, grammar_wf
from . import common, u_generate
from .common import RP, CP, CTX

FINDER_SCOPE = r"pub mod rust_log_ref_finder\b"

FIND_STUBS = """verus! {
// ---- regular expressions: only the two literal patterns present in the source are given a meaning -------------
#[verifier::external_body]
pub struct Regex { _p: () }
impl Regex { pub uninterp spec fn pat(&self) -> int; }

// what the directive scan decides for (text, position, directive name) — see unit `directive`
pub uninterp spec fn directive_before(code: Seq<u8>, pos: int, name: Seq<char>) -> bool;
pub open spec fn ignore_name() -> Seq<char> { seq!['b','r','e','a','d','l','o','g',':','i','g','n','o','r','e'] }
pub open spec fn no_kvp_name() -> Seq<char> { seq!['b','r','e','a','d','l','o','g',':','n','o','-','k','v','p'] }
// the token rule of C12 on the bytes of a message literal
pub uninterp spec fn extract_spec(lit: Seq<u8>) -> Option<u32>;
pub open spec fn ref_key() -> Seq<u8> { seq![114u8, 101u8, 102u8] }   // "ref"
}
"""


def regex_shims(u, statics):
    for name, typ, init in statics:
        m = re.match(r'Regex::new\(\s*(r?"(?:\\.|[^"\\])*")\s*\)\.unwrap\(\)$', init)
        if not m or typ != "Regex":
            raise LostAnchor("lazy static %s is not `Regex::new(<literal>).unwrap()`" % name)
        lit = m.group(1)
        known = {r'r"\/\/(.+)|\/\*(.+)\*\/"': 1, r'r"^\[ref: ([0-9]{1,10})\]"': 2}
        pid = known.get(lit)
        if pid is None:
            raise LostAnchor("regular expression %s of %s is not one of the two patterns the regex shim gives a meaning to" % (lit, name))
        u.raw("""verus! {
// lazy static %s = Regex::new(%s)
#[verifier::external_body]
pub fn %s_shim() -> (r: &'static Regex) ensures r.pat() == %d { unimplemented!() }
}
""" % (name, lit.replace("\\", "\\\\"), name, pid))


def find_references(u):
    f = u.real_fn(CP, "find_references", props=("C03", "C05", "C17"))
    rules.sig(f, ret="r")
    f.ensures.append(("C03.positions,C17.positions", "positions_ok(code.spec_bytes(), r@)"))
    return f


def build():
    u = Unit("find")
    u.include("shims/prelude.rs")
    common.entry_types(u)
    u.include("spec/entries.rs")
    u.include("shims/io.rs")
    de = common.de_serde
    for item in (r"pub struct RustLogMacro\b", r"pub struct RustConfig\b", r"pub struct Config\b"):
        u.real_item(CTX, item, de)
    enum, kids, facts = grammar_wf.verus_text(os.path.join(REPO, "src/parser/rust_grammar.pest"))
    u.raw("verus! {\n" + enum + kids + "}\n", "generated: grammar shape facts (weave/grammar_wf.py)")
    u.grammar_facts = facts
    u.include("shims/pest.rs")
    u.include("shims/strshim.rs")
    u.include("shims/yaml.rs") if False else None
    from . import u_directive
    u.raw(u_directive.DIRECTIVE_DEFS)
    u.include("shims/scanshim.rs")
    u.raw("""verus! {
#[derive(Debug)]
pub struct Infallible { pub _p: () }
#[verifier::external_body]
pub fn string_from_str(s: &str) -> (r: Result<String, Infallible>) ensures r.is_ok() && r.unwrap()@ == s@ { unimplemented!() }
// R15: `name.rfind("::").map_or(name.clone(), |i| name[i + 2..].to_string())` — last path segment, only stored in `_macro_name`
#[verifier::external_body]
pub fn last_path_segment(s: &String) -> (r: String) { unimplemented!() }
""")
    # callees in code_parser.rs: stubs carrying the contracts proved in unit `directive`
    _t = Unit("tmpd")
    for wf in u_directive.wrappers(_t):
        u.stub_of(wf, note="%s: contract proved in unit `directive`" % wf.emit_name)
    rk, _st = u_directive.ref_key_fn(_t)
    u.stub_of(rk, note="get_name_for_ref_kvp_key: contract proved in unit `directive`")
    u.raw("impl LogRefEntry {\n")
    exf, _st2 = u_directive.extract_fn(_t)
    u.stub_of(exf, note="LogRefEntry::extract_reference: contract proved in unit `directive`")
    u.raw("}\n}\n")
    common.entry_accessors(u, with_token=False)

    u.raw("verus! {\n")
    u.raw("""
// C11: a macro is of interest iff its written name is exactly a configured name, or exactly `module::name`
pub open spec fn qualified(m: RustLogMacro) -> Seq<char> { m.module@ + seq![':', ':'] + m.name@ }
pub open spec fn interest(name: Seq<char>, macros: Seq<RustLogMacro>, k: int) -> bool {
    exists|i: int| 0 <= i < k && (name == (#[trigger] macros[i]).name@ || name == qualified(macros[i]))
}
}
""")
    u.include("spec/findspec.rs")
    u.raw("verus! {\n")
    # ---- macro_of_interest ------------------------------------------------------------------------------
    f = u.real_fn(RP, "macro_of_interest", scope=FINDER_SCOPE, props=("C11", "C17"))
    rules.sig(f, ret="r")
    rules.r5_format(f, kinds={}, min_count=0)
    # std str predicates a comparison might be replaced by: given their meaning, so that a weaker test FAILS the contract
    rules.r9_method_to_fn(f, "ends_with", "str_ends_with")
    rules.r9_method_to_fn(f, "starts_with", "str_starts_with")
    # R9: `<&String> == <&str>` has no Verus spec; String: PartialEq<str> compares the text, so compare through as_str()
    f.replace_all(r"\bmacro_name\s*==", "macro_name.as_str() ==", "R9", regex=True, min_count=0)
    f.ensures.append(("C11.filter", "r == interest(macro_name@, config.rust.log_macros@, config.rust.log_macros@.len() as int)"))
    # `for x in &V` -> `for x in it: V.iter()` (same iteration)
    kw = f.loops()[0]
    ob = f.loop_open_brace(kw[2])
    hdr = f.body[kw[2]:ob]
    m = re.match(r"\s+(\w+)\s+in\s+&\s*([\w\.]+)\s*$", hdr)
    if not m:
        raise LostAnchor("macro_of_interest loop header shape")
    f.replace(kw[2], ob, " %s in it: %s.iter()\n%s" % (m.group(1), m.group(2), rules.inv_text([
        "0 <= it.index@ <= config.rust.log_macros@.len()",
        ("C11.filter", "!interest(macro_name@, config.rust.log_macros@, it.index@)"),
    ])), "R3", "for x in &V -> for x in V.iter()")
    f.at_start(' proof { reveal_strlit("::"); reveal_strlit(""); assert("::"@ =~= seq![\':\', \':\']); }')
    f.before_stmt("let qualified_macro_name =", "", ) if False else None
    f.after_stmt("let qualified_macro_name =", "proof { reveal_strlit(\"::\"); reveal_strlit(\"\"); assert(\"::\"@ =~= seq![':', ':']); assert(qualified_macro_name@ =~= qualified(*config_macro)); }\n                ")
    for k in (0, 1):
        f.before_stmt("return true;", "proof { assert(config.rust.log_macros@[it.index@] == *config_macro); }\n                ", nth=k)

    # ---- find ---------------------------------------------------------------------------------------------
    f = u.real_fn(RP, "find", scope=FINDER_SCOPE, props=("C03", "C05", "C06", "C11", "C13", "C14", "C17"))
    # four nested loops over a large context: with loop_isolation(false) the queries exceed the default resource limit (measured:
    # needs --rlimit 100, 57 s), so this function keeps Verus's default isolation and restates what each loop needs
    f.keep_isolation = True
    rules.sig(f, ret="result")
    _names = re.findall(r"static\s+ref\s+(\w+)\s*:", f.mbody)
    rules.r16_map_or(f, inner_subst=[(r"&\s*%s\b" % n, "%s_shim()" % n) for n in _names])
    statics = rules.r_lazy_static(f)
    rules.r_last_mut_set(f)
    rules.r_parse_u32(f)
    rules.r5_format(f, kinds={"ref_kvp_key": "str"}, min_count=1)
    rules.r6_str_slice(f, ["code"])
    rules.r9_str_len(f, ["code", "macro_name"])
    rules.r9_method_to_fn(f, "from_str", "XX") if False else None
    f.replace_all(r"String::from_str\s*\(", "string_from_str(", "R9", regex=True, min_count=1)
    # R15: last path segment of the macro name (stored in the unused `_macro_name` field)
    h = re.search(r"macro_name_str\s*\.rfind\([^)]*\)\s*\.map_or\(", f.mbody)
    if not h:
        raise LostAnchor("_macro_name computation shape changed in find")
    po = h.end() - 1
    pc = lexer.match_close(f.body, po)
    f.replace(h.start(), pc + 1, "last_path_segment(&macro_name_str)", "R15", "rfind/map_or closure computing the unused `_macro_name` field -> shim")

    LINECOL = ("forall|j: int| 0 <= j < result@.len() ==> (#[trigger] result@[j]).position.line as int == line_of(inp, result@[j].position.character as int)"
               " && result@[j].position.column as int == col_of(inp, result@[j].position.character as int)")
    NMAC = "config.rust.log_macros@, config.rust.log_macros@.len() as int"
    HAS_CONTAINER = bool(re.search(r"\blet\s+rule_ref_container_span\b", f.mbody))
    loops = f.loops()
    fors = [l for l in loops if l[0] == "for"]
    if len(fors) != 4:
        raise LostAnchor("find: expected 4 for loops, found %d" % len(fors))
    outer, inner_args, inner_kvps, kvp_scan = fors
    inp = "inp"
    common_inv = [
        "inp == code.spec_bytes()", "inp.len() <= isize::MAX",
        "kids_rule_ok(top) && kids_span_ok(top, inp) && top.rule == Rule::file",
        "RUST_COMMENT_PATTERN_shim().pat() == 1" if False else "true",
    ]
    rules.r12_pairs(f, outer[1], "__it0", common_inv + [
        "__it0.input() == inp", "__it0.rest().len() <= top.children.len()",
        "__it0.rest() == top.children.subrange(top.children.len() - __it0.rest().len(), top.children.len() as int)",
        ("C03.positions,C17.positions", "positions_ok(inp, result@)"),
        ("C03.positions,C17.positions", "0 <= hw <= inp.len() && forall|j: int| 0 <= j < result@.len() ==> (#[trigger] result@[j]).position.character as int <= hw"),
        ("C03.positions,C17.positions", "__it0.rest().len() > 0 ==> hw <= __it0.rest()[0].start"),
        ("C13.all", "view_entries(result@) == tree_entries(top.children, inp, *config, top.children.len() - __it0.rest().len())"),
        ("C05.where", LINECOL),
        ("C03.entries,C05.entries,C06.entries,C11.filter,C14.where,C13.pos", "view_asp(result@, Aspect::Where) == tree_asp(top.children, inp, *config, top.children.len() - __it0.rest().len(), Aspect::Where)"),
        ("C13.kind,C14.where", "view_asp(result@, Aspect::Kind) == tree_asp(top.children, inp, *config, top.children.len() - __it0.rest().len(), Aspect::Kind)"),
        ("C12.extract", "view_asp(result@, Aspect::RefString) == tree_asp(top.children, inp, *config, top.children.len() - __it0.rest().len(), Aspect::RefString)"),
        ("C13.existing", "view_asp(result@, Aspect::RefKv) == tree_asp(top.children, inp, *config, top.children.len() - __it0.rest().len(), Aspect::RefKv)"),
        ("C13.new", "view_asp(result@, Aspect::Affix) == tree_asp(top.children, inp, *config, top.children.len() - __it0.rest().len(), Aspect::Affix)"),
    ])
    # ghost: the statement's span bounds every position recorded for it
    f.before_stmt("let mut result = Vec::new();", "let ghost inp = code.spec_bytes(); let ghost mut hw: int = 0;\n        ")
    f.before_stmt("for found in parsed_target.into_inner()", "let ghost top = parsed_target.g();\n        "
                  "proof { assert(inp.len() <= isize::MAX); }\n        ") if False else None
    s0 = outer[1]
    f.insert_at(s0, "let ghost top = parsed_target.g();\n        ")
    ob_outer = f.loop_open_brace(outer[2])
    f.insert_at(ob_outer + 1, "\n            let ghost idx = top.children.len() - __it0.rest().len() - 1;"
                "\n            let ghost hw0 = hw;"
                "\n            proof { assert(found.g() == top.children[idx]); hw = found.g().end;"
                " assert(forall|j: int| idx < j < top.children.len() ==> top.children[idx].end <= (#[trigger] top.children[j]).start); }"
                "\n            let ghost mlo = found.g().start; let ghost mhi = found.g().end; let ghost g = found.g();", "G", "per-statement ghost bounds")
    span_facts = [
        "0 <= hw0 <= mlo <= mhi <= inp.len() && hw == mhi",
        "positions_ok(inp, result@) && forall|j: int| 0 <= j < result@.len() ==> (#[trigger] result@[j]).position.character as int <= hw0",
        "log_message_span.is_some() ==> log_message_span.unwrap().input() == inp && mlo <= log_message_span.unwrap().lo() <= log_message_span.unwrap().hi() <= mhi"
        " && is_boundary(inp, log_message_span.unwrap().lo()) && is_boundary(inp, log_message_span.unwrap().hi())",
        "first_arg_pos.is_some() ==> first_arg_pos.unwrap().input() == inp && mlo <= first_arg_pos.unwrap().at() <= mhi",
        "forall|k: int| 0 <= k < kvp_spans@.len() ==> (#[trigger] kvp_spans@[k]).0.input() == inp && mlo <= kvp_spans@[k].0.lo() <= kvp_spans@[k].0.hi() <= mhi",
        "forall|k: int| 0 <= k < kvp_spans@.len() && (#[trigger] kvp_spans@[k]).1.is_some() ==> kvp_spans@[k].1.unwrap().input() == inp"
        " && mlo <= kvp_spans@[k].1.unwrap().lo() <= kvp_spans@[k].1.unwrap().hi() <= mhi",
        # (only if the local still exists: invariants must not depend on an incidental temporary)
        ("rule_ref_container_span.input() == inp && mlo <= rule_ref_container_span.lo() <= rule_ref_container_span.hi() <= mhi && is_boundary(inp, rule_ref_container_span.lo())"
         " && rule_ref_container_span.lo() == ma.start") if HAS_CONTAINER else "true",
        # the statement passed the filters; its entries so far are those of the tree
        ("C11.filter,C14.where", "g == top.children[idx] && 0 <= idx < top.children.len() && g.rule == Rule::log_macro && g.children.len() >= 2 && g.children[0].rule == Rule::macro_name"
         " && g.children[1] == ma && ma.rule == Rule::macro_args && is_boundary(inp, ma.start)"
         " && !directive_before(inp, g.children[0].start, ignore_name()) && interest(decode_utf8(text(inp, g.children[0])), %s)" % NMAC),
        ("C13.all", "view_entries(result@) == tree_entries(top.children, inp, *config, idx)"),
        ("C03.entries,C05.entries,C06.entries,C11.filter,C14.where,C13.pos", "view_asp(result@, Aspect::Where) == tree_asp(top.children, inp, *config, idx, Aspect::Where)"),
        ("C13.kind,C14.where", "view_asp(result@, Aspect::Kind) == tree_asp(top.children, inp, *config, idx, Aspect::Kind)"),
        ("C12.extract", "view_asp(result@, Aspect::RefString) == tree_asp(top.children, inp, *config, idx, Aspect::RefString)"),
        ("C13.existing", "view_asp(result@, Aspect::RefKv) == tree_asp(top.children, inp, *config, idx, Aspect::RefKv)"),
        ("C13.new", "view_asp(result@, Aspect::Affix) == tree_asp(top.children, inp, *config, idx, Aspect::Affix)"),
        ("C05.where", LINECOL),
    ]
    args_facts = lambda i1: [
        ("C13.kind", "log_message_span.is_some() == args_msg(ma.children, %s).is_some()" % i1),
        ("C13.kind", "log_message_span.is_some() ==> span_is(log_message_span.unwrap(), args_msg(ma.children, %s).unwrap(), inp)" % i1),
        ("C13.new", "first_arg_pos.is_some() == (%s > 0)" % i1),
        ("C13.new", "first_arg_pos.is_some() ==> first_arg_pos.unwrap().at() == ma.children[0].start"),
    ]
    rules.r12_pairs(f, inner_args[1], "__it1", common_inv[:2] + span_facts + [
        "__it1.input() == inp", "kids_rule_ok(ma) && kids_span_ok(ma, inp)", "mlo <= ma.start && ma.end <= mhi",
        "__it1.rest().len() <= ma.children.len()",
        "__it1.rest() == ma.children.subrange(ma.children.len() - __it1.rest().len(), ma.children.len() as int)",
        ("C13.kind", "kv_match(kvp_spans@, args_kvs(ma.children, ma.children.len() - __it1.rest().len()), inp)"),
    ] + args_facts("ma.children.len() - __it1.rest().len()"))
    f.insert_at(inner_args[1], "let ghost ma = rule_l2.g();\n                    ")
    ob1 = f.loop_open_brace(inner_args[2])
    f.insert_at(ob1 + 1, " proof { assert(rule.g() == ma.children[ma.children.len() - __it1.rest().len() - 1]); }", "G", "element of macro_args")
    rules.r12_pairs(f, inner_kvps[1], "__it2", common_inv[:2] + span_facts + [
        "__it2.input() == inp", "kids_span_ok(ka, inp)", "mlo <= ka.start && ka.end <= mhi",
        "__it2.rest().len() <= ka.children.len()",
        "__it2.rest() == ka.children.subrange(ka.children.len() - __it2.rest().len(), ka.children.len() as int)",
        "0 <= i1m < ma.children.len() && ka == ma.children[i1m] && ka.rule == Rule::kvp_args && i1m == ma.children.len() - __it1.rest().len() - 1",
        ("C13.kind", "kv_match(kvp_spans@, kv_fold(args_kvs(ma.children, i1m), ka.children, ka.children.len() - __it2.rest().len()), inp)"),
    ] + args_facts("i1m") if False else common_inv[:2] + span_facts + [
        "__it2.input() == inp", "kids_span_ok(ka, inp)", "mlo <= ka.start && ka.end <= mhi",
        "__it2.rest().len() <= ka.children.len()",
        "__it2.rest() == ka.children.subrange(ka.children.len() - __it2.rest().len(), ka.children.len() as int)",
        "0 <= i1m < ma.children.len() && ka == ma.children[i1m] && ka.rule == Rule::kvp_args && i1m == ma.children.len() - __it1.rest().len() - 1",
        "__it1.input() == inp && kids_rule_ok(ma) && kids_span_ok(ma, inp) && mlo <= ma.start && ma.end <= mhi && __it1.rest().len() <= ma.children.len()"
        " && __it1.rest() == ma.children.subrange(ma.children.len() - __it1.rest().len(), ma.children.len() as int)",
        ("C13.kind", "kv_match(kvp_spans@, kv_fold(args_kvs(ma.children, i1m), ka.children, ka.children.len() - __it2.rest().len()), inp)"),
    ] + args_facts("i1m + 1"))
    # `let kvps = rule.into_inner();` consumes rule: snapshot before
    f.before_stmt("let kvps = rule.into_inner();", "let ghost ka = rule.g(); let ghost i1m = ma.children.len() - __it1.rest().len() - 1;\n                                ")
    ob2 = f.loop_open_brace(inner_kvps[2])
    f.insert_at(ob2 + 1, " proof { assert(kvp.g() == ka.children[ka.children.len() - __it2.rest().len() - 1]); }", "G", "element of kvp_args")
    rules.r_for_tuple_vec(f, kvp_scan[1], common_inv[:2] + span_facts + [
        "0 <= __k <= kvp_spans@.len()",
        "code_pos.is_some() ==> mlo <= code_pos.unwrap().character as int <= mhi",
        "kvs == args_kvs(ma.children, ma.children.len() as int) && kv_match(kvp_spans@, kvs, inp) && total_kvps == kvs.len()",
        "ref_kvp_key.spec_bytes() == ref_key() && ref_kvp_key@ == seq!['r', 'e', 'f']",
        "insertion_prefix.is_none() && insertion_suffix.is_none()",
    ], except_break=[
        ("C13.existing", "code_pos.is_none() && reference.is_none() && ref_kind == LogRefKind::Unknown"),
        ("C13.existing", "forall|i: int| 0 <= i < __k ==> !(text(inp, (#[trigger] kvs[i]).0) == ref_key() && kvs[i].1.is_some())"),
        ("C13.existing", "first_ref(kvs, inp, 0) == first_ref(kvs, inp, __k as int)"),
    ], ensures=[
        ("C13.existing", "code_pos.is_none() ==> reference.is_none() && ref_kind == LogRefKind::Unknown && first_ref(kvs, inp, 0).is_none()"),
        ("C13.existing", "code_pos.is_some() ==> 0 <= hit < kvs.len() && first_ref(kvs, inp, 0) == Some(hit) && code_pos.unwrap().character as int == kvs[hit].1.unwrap().start && reference == parse_u32_spec(text(inp, kvs[hit].1.unwrap())) && ref_kind == LogRefKind::StructuredPreExisting && code_pos.unwrap().line as int == line_of(inp, code_pos.unwrap().character as int) && code_pos.unwrap().column as int == col_of(inp, code_pos.unwrap().character as int)"),
    ])
    f.before_stmt("let total_kvps = kvp_spans.len();", "let ghost kvs = args_kvs(ma.children, ma.children.len() as int); let ghost mut hit: int = -1;\n                        ")
    # inside the scan: the key text comparison is a comparison of the bytes
    f.before_stmt("if kvp_key.as_str() == ref_kvp_key", "proof { lemma_encode_inj(); assert(kvp_spans@[__k - 1] == (kvp_key, kvp_value)); }\n                            ")
    f.before_stmt("ref_kind = LogRefKind::StructuredPreExisting;", "proof { lemma_first_ref_from(kvs, inp, __k - 1); hit = __k - 1; }\n                                        ")
    f.before_stmt("result.push(ref_entry);", "proof { lemma_positions_push(inp, result@, ref_entry, hw0);\n"
                  "                        reveal_strlit(\" = \"); reveal_strlit(\", \"); reveal_strlit(\"; \");\n"
                  "                        assert(\" = \"@ =~= seq![' ', '=', ' ']); assert(\", \"@ =~= seq![',', ' ']); assert(\"; \"@ =~= seq![';', ' ']);\n"
                  "                        lemma_asp_push(result@, ref_entry, Aspect::Where);\n"
                  "                        assert(mask_opt(node_entry(g, inp, *config), Aspect::Where) == Some(mask(view_entry(ref_entry), Aspect::Where))); // [C03.entries,C05.entries,C06.entries,C11.filter,C14.where,C13.pos]\n"
                  "                        lemma_asp_push(result@, ref_entry, Aspect::Kind);\n"
                  "                        assert(mask_opt(node_entry(g, inp, *config), Aspect::Kind) == Some(mask(view_entry(ref_entry), Aspect::Kind))); // [C13.kind,C14.where]\n"
                  "                        lemma_asp_push(result@, ref_entry, Aspect::RefString);\n"
                  "                        assert(mask_opt(node_entry(g, inp, *config), Aspect::RefString) == Some(mask(view_entry(ref_entry), Aspect::RefString))); // [C12.extract]\n"
                  "                        lemma_asp_push(result@, ref_entry, Aspect::RefKv);\n"
                  "                        assert(mask_opt(node_entry(g, inp, *config), Aspect::RefKv) == Some(mask(view_entry(ref_entry), Aspect::RefKv))); // [C13.existing]\n"
                  "                        lemma_asp_push(result@, ref_entry, Aspect::Affix);\n"
                  "                        assert(mask_opt(node_entry(g, inp, *config), Aspect::Affix) == Some(mask(view_entry(ref_entry), Aspect::Affix))); // [C13.new]\n"
                  "                        lemma_view_push(result@, ref_entry);\n"
                  "                        assert(node_entry(g, inp, *config) == Some(view_entry(ref_entry))); // [C13.all]\n"
                  "                    }\n                    ")
    f.after_stmt("insertion_prefix = Some(", " proof { reveal_strlit(\"\"); reveal_strlit(\" = \"); assert(insertion_prefix.unwrap()@ =~= ref_eq_prefix()); }")
    f.after_stmt("let macro_name_str = match macro_name_parsed", " proof { encode_utf8_decode_utf8(macro_name_str@); assert(macro_name_str@ == decode_utf8(text(inp, g.children[0]))); }")
    f.ensures += [
        ("C03.positions,C17.positions", "positions_ok(code.spec_bytes(), result@)"),
        # the result is exactly what the tree determines: nothing for unconfigured / ignored macros, and the documented kind,
        # position, reference and separators for every other statement
        ("C13.all", "forall|top: PairG| parse_tree_is(code.spec_bytes(), top) ==> "
         "view_entries(result@) == tree_entries(top.children, code.spec_bytes(), *config, top.children.len() as int)"),
        ("C05.where", LINECOL.replace("inp", "code.spec_bytes()")),
        ("C03.entries,C05.entries,C06.entries,C11.filter,C14.where,C13.pos", "forall|top: PairG| parse_tree_is(code.spec_bytes(), top) ==> "
         "view_asp(result@, Aspect::Where) == tree_asp(top.children, code.spec_bytes(), *config, top.children.len() as int, Aspect::Where)"),
        ("C13.kind,C14.where", "forall|top: PairG| parse_tree_is(code.spec_bytes(), top) ==> "
         "view_asp(result@, Aspect::Kind) == tree_asp(top.children, code.spec_bytes(), *config, top.children.len() as int, Aspect::Kind)"),
        ("C12.extract", "forall|top: PairG| parse_tree_is(code.spec_bytes(), top) ==> "
         "view_asp(result@, Aspect::RefString) == tree_asp(top.children, code.spec_bytes(), *config, top.children.len() as int, Aspect::RefString)"),
        ("C13.existing", "forall|top: PairG| parse_tree_is(code.spec_bytes(), top) ==> "
         "view_asp(result@, Aspect::RefKv) == tree_asp(top.children, code.spec_bytes(), *config, top.children.len() as int, Aspect::RefKv)"),
        ("C13.new", "forall|top: PairG| parse_tree_is(code.spec_bytes(), top) ==> "
         "view_asp(result@, Aspect::Affix) == tree_asp(top.children, code.spec_bytes(), *config, top.children.len() as int, Aspect::Affix)"),
    ]
    u_directive.static_shims(u, statics)
    u.raw("}\n")
    u.raw("verus! {\npub mod rust_log_ref_finder { pub use super::find; }\n")
    u.real_item(CP, r"pub enum CodeLanguage\b", lambda t: common.strip_doc(re.sub(r"#\[derive\([^\]]*\)\]", "#[derive(Clone, Copy)]", t)))
    find_references(u)
    u.raw("}\n")
    u.raw("fn main() {}\n")
    u.assume("pest: pairs' spans are nested, ordered, non-overlapping and on character boundaries; line_col is pest's; the tree shape facts are derived from rust_grammar.pest by weave/grammar_wf.py")
    return u
