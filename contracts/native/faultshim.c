/* LD_PRELOAD fault-injection shim for the bounded C07/C08 family (contracts/e2e_faults.py).
 * Counts the filesystem operations (open/creat, write, fsync, rename, unlink, truncate, copy) that touch a path below one of the
 * watched prefixes (FAULT_WATCH, ':'-separated) or a descriptor opened from such a path; at operation number FAULT_AT (1-based) it
 *   FAULT_KIND=kill_before  kills the process (SIGKILL) before performing the operation
 *   FAULT_KIND=kill_after   performs the operation, then kills the process
 *   FAULT_KIND=<errno name> fails the operation with that errno without performing it
 *   FAULT_KIND=SIGINT|SIGTERM  sends that signal to the process immediately before the operation, which is then performed normally; with
 *                           FAULT_SIG2_PATH=<substring> the first later operation whose path contains the substring gets the signal again
 * Every counted operation is appended to FAULT_LOG as "<n> <op> <path>" (the faulted one is marked with '!'). */
#define _GNU_SOURCE
#include <dlfcn.h>
#include <errno.h>
#include <fcntl.h>
#include <signal.h>
#include <stdarg.h>
#include <stdio.h>
#include <stdlib.h>
#include <string.h>
#include <sys/types.h>
#include <unistd.h>
#include <pthread.h>

#define MAXFD 4096
static char fdpath[MAXFD][256];
static char watched_fd[MAXFD];
static long counter = 0;
static pthread_mutex_t mu = PTHREAD_MUTEX_INITIALIZER;

static int watched_path(const char *p) {
    const char *w = getenv("FAULT_WATCH");
    if (!w || !p) return 0;
    char buf[4096];
    strncpy(buf, w, sizeof buf - 1); buf[sizeof buf - 1] = 0;
    char *save = NULL;
    for (char *t = strtok_r(buf, ":", &save); t; t = strtok_r(NULL, ":", &save))
        if (*t && strncmp(p, t, strlen(t)) == 0) return 1;
    return 0;
}

static int errno_of(const char *k) {
    if (!strcmp(k, "EIO")) return EIO;
    if (!strcmp(k, "ENOSPC")) return ENOSPC;
    if (!strcmp(k, "EXDEV")) return EXDEV;
    if (!strcmp(k, "EACCES")) return EACCES;
    return 0;
}

/* returns: 0 = perform normally, 1 = perform then kill, 2 = fail with errno (set) */
static int step(const char *op, const char *path) {
    pthread_mutex_lock(&mu);
    long n = ++counter;
    const char *at = getenv("FAULT_AT"), *kind = getenv("FAULT_KIND"), *log = getenv("FAULT_LOG");
    long k = at ? atol(at) : 0;
    int hit = (k > 0 && n == k && kind);
    static int first_sent = 0;
    int sig = kind ? (!strcmp(kind, "SIGINT") ? SIGINT : (!strcmp(kind, "SIGTERM") ? SIGTERM : 0)) : 0;
    const char *p2 = getenv("FAULT_SIG2_PATH");
    if (!hit && sig && first_sent == 1 && p2 && path && strstr(path, p2)) { hit = 1; first_sent = 2; }
    else if (hit && sig) first_sent = 1;
    if (log) {
        int fd = (int)syscall(257 /* openat */, AT_FDCWD, log, O_WRONLY | O_CREAT | O_APPEND, 0644);
        if (fd >= 0) {
            char line[600];
            int len = snprintf(line, sizeof line, "%ld %s%s %s\n", n, hit ? "!" : "", op, path ? path : "?");
            syscall(1 /* write */, fd, line, (size_t)len);
            syscall(3 /* close */, fd);
        }
    }
    pthread_mutex_unlock(&mu);
    if (!hit) return 0;
    if (sig) { kill(getpid(), sig); return 0; }
    if (!strcmp(kind, "kill_before")) { kill(getpid(), SIGKILL); for (;;) pause(); }
    if (!strcmp(kind, "kill_after")) return 1;
    int e = errno_of(kind);
    if (e) { errno = e; return 2; }
    return 0;
}

static void die_now(void) { kill(getpid(), SIGKILL); for (;;) pause(); }

#define REAL(name) static __typeof__(name) *real = NULL; if (!real) real = dlsym(RTLD_NEXT, #name)

static int do_open(int (*fn)(const char *, int, ...), const char *path, int flags, mode_t mode) {
    int w = watched_path(path);
    int r = 0;
    if (w) { r = step((flags & (O_WRONLY | O_RDWR)) ? "open-write" : "open-read", path); if (r == 2) return -1; }
    int fd = fn(path, flags, mode);
    if (fd >= 0 && fd < MAXFD) {
        watched_fd[fd] = (char)w;
        if (w) { strncpy(fdpath[fd], path, 255); fdpath[fd][255] = 0; }
    }
    if (r == 1) die_now();
    return fd;
}

int open(const char *path, int flags, ...) {
    REAL(open);
    mode_t mode = 0;
    if (flags & (O_CREAT | O_TMPFILE)) { va_list ap; va_start(ap, flags); mode = va_arg(ap, mode_t); va_end(ap); }
    return do_open(real, path, flags, mode);
}
int open64(const char *path, int flags, ...) {
    REAL(open64);
    mode_t mode = 0;
    if (flags & (O_CREAT | O_TMPFILE)) { va_list ap; va_start(ap, flags); mode = va_arg(ap, mode_t); va_end(ap); }
    return do_open(real, path, flags, mode);
}
int openat(int dirfd, const char *path, int flags, ...) {
    REAL(openat);
    mode_t mode = 0;
    if (flags & (O_CREAT | O_TMPFILE)) { va_list ap; va_start(ap, flags); mode = va_arg(ap, mode_t); va_end(ap); }
    int w = (path && path[0] == '/') ? watched_path(path) : 0;
    int r = 0;
    if (w && !(flags & O_DIRECTORY)) { r = step((flags & (O_WRONLY | O_RDWR)) ? "open-write" : "open-read", path); if (r == 2) return -1; }
    int fd = real(dirfd, path, flags, mode);
    if (fd >= 0 && fd < MAXFD) { watched_fd[fd] = (char)(w && !(flags & O_DIRECTORY)); if (w) { strncpy(fdpath[fd], path, 255); fdpath[fd][255] = 0; } }
    if (r == 1) die_now();
    return fd;
}
int openat64(int dirfd, const char *path, int flags, ...) {
    REAL(openat64);
    mode_t mode = 0;
    if (flags & (O_CREAT | O_TMPFILE)) { va_list ap; va_start(ap, flags); mode = va_arg(ap, mode_t); va_end(ap); }
    int w = (path && path[0] == '/') ? watched_path(path) : 0;
    int r = 0;
    if (w && !(flags & O_DIRECTORY)) { r = step((flags & (O_WRONLY | O_RDWR)) ? "open-write" : "open-read", path); if (r == 2) return -1; }
    int fd = real(dirfd, path, flags, mode);
    if (fd >= 0 && fd < MAXFD) { watched_fd[fd] = (char)(w && !(flags & O_DIRECTORY)); if (w) { strncpy(fdpath[fd], path, 255); fdpath[fd][255] = 0; } }
    if (r == 1) die_now();
    return fd;
}
int creat(const char *path, mode_t mode) { return open(path, O_CREAT | O_WRONLY | O_TRUNC, mode); }

int close(int fd) {
    REAL(close);
    if (fd >= 0 && fd < MAXFD) watched_fd[fd] = 0;
    return real(fd);
}

ssize_t write(int fd, const void *buf, size_t n) {
    REAL(write);
    int r = 0;
    if (fd >= 0 && fd < MAXFD && watched_fd[fd]) { r = step("write", fdpath[fd]); if (r == 2) return -1; }
    ssize_t x = real(fd, buf, n);
    if (r == 1) die_now();
    return x;
}
int fsync(int fd) {
    REAL(fsync);
    int r = 0;
    if (fd >= 0 && fd < MAXFD && watched_fd[fd]) { r = step("fsync", fdpath[fd]); if (r == 2) return -1; }
    int x = real(fd);
    if (r == 1) die_now();
    return x;
}
int fdatasync(int fd) {
    REAL(fdatasync);
    int r = 0;
    if (fd >= 0 && fd < MAXFD && watched_fd[fd]) { r = step("fdatasync", fdpath[fd]); if (r == 2) return -1; }
    int x = real(fd);
    if (r == 1) die_now();
    return x;
}
int ftruncate(int fd, off_t len) {
    REAL(ftruncate);
    int r = 0;
    if (fd >= 0 && fd < MAXFD && watched_fd[fd]) { r = step("ftruncate", fdpath[fd]); if (r == 2) return -1; }
    int x = real(fd, len);
    if (r == 1) die_now();
    return x;
}
int ftruncate64(int fd, off64_t len) {
    REAL(ftruncate64);
    int r = 0;
    if (fd >= 0 && fd < MAXFD && watched_fd[fd]) { r = step("ftruncate", fdpath[fd]); if (r == 2) return -1; }
    int x = real(fd, len);
    if (r == 1) die_now();
    return x;
}
int rename(const char *a, const char *b) {
    REAL(rename);
    int r = 0;
    if (watched_path(a) || watched_path(b)) { char p[600]; snprintf(p, sizeof p, "%s -> %s", a, b); r = step("rename", p); if (r == 2) return -1; }
    int x = real(a, b);
    if (r == 1) die_now();
    return x;
}
int renameat(int ad, const char *a, int bd, const char *b) {
    REAL(renameat);
    int r = 0;
    if (watched_path(a) || watched_path(b)) { char p[600]; snprintf(p, sizeof p, "%s -> %s", a, b); r = step("rename", p); if (r == 2) return -1; }
    int x = real(ad, a, bd, b);
    if (r == 1) die_now();
    return x;
}
int unlink(const char *a) {
    REAL(unlink);
    int r = 0;
    if (watched_path(a)) { r = step("unlink", a); if (r == 2) return -1; }
    int x = real(a);
    if (r == 1) die_now();
    return x;
}
int unlinkat(int d, const char *a, int fl) {
    REAL(unlinkat);
    int r = 0;
    if (a && a[0] == '/' && watched_path(a)) { r = step("unlink", a); if (r == 2) return -1; }
    int x = real(d, a, fl);
    if (r == 1) die_now();
    return x;
}
ssize_t copy_file_range(int in, off64_t *oin, int out, off64_t *oout, size_t len, unsigned int fl) {
    REAL(copy_file_range);
    int r = 0;
    if (out >= 0 && out < MAXFD && watched_fd[out]) { r = step("copy_file_range", fdpath[out]); if (r == 2) return -1; }
    ssize_t x = real(in, oin, out, oout, len, fl);
    if (r == 1) die_now();
    return x;
}
