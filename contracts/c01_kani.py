"""Thorough tier only: Kani (CBMC) on the UNREWRITTEN crate for the reduce functions, as a bounded cross-check that the weaver's
rewrites did not change meaning (DESIGN.md §3.5 job 3).  A disagreement with Verus is a machinery problem (UNDECIDED), never a violation."""
import os, re, shutil, subprocess, time
ROOT = os.path.dirname(os.path.dirname(os.path.abspath(__file__)))
REPO = os.environ.get("VERIF_REPO", "/repo")


def run(tier, seed):
    res = {"violations": [], "obligations": 0, "discharged": 0, "bounded": True}
    if tier != "thorough":
        res["skipped"] = "thorough tier only"
        return res
    scratch = "/var/tmp/verif-kanix-%d" % os.getpid()
    shutil.rmtree(scratch, ignore_errors=True)
    os.makedirs(scratch)
    try:
        subprocess.run(["rsync", "-a", "--exclude", "target", "--exclude", ".git", REPO + "/", scratch + "/repo/"], check=True)
        with open(scratch + "/repo/src/codegen/generate.rs", "a") as f:
            f.write(open(os.path.join(ROOT, "kani", "harness_generate.rs")).read())
        env = dict(os.environ, CARGO_TARGET_DIR=scratch + "/target", CARGO_NET_OFFLINE="true")
        out = {}
        t0 = time.time()
        for h in ("verif_reduce_next_id", "verif_insert_reduce", "verif_count_reduce"):
            r = subprocess.run(["cargo", "kani", "--harness", h], cwd=scratch + "/repo", env=env, capture_output=True, text=True, timeout=3000)
            o = r.stdout + r.stderr
            ok = "VERIFICATION:- SUCCESSFUL" in o
            out[h] = {"successful": ok, "tail": "" if ok else o[-400:]}
            res["obligations"] += 1
            res["discharged"] += 1 if ok else 0
        res["kani_cross_check"] = {"backend": "kani 0.68 / cbmc", "bound": "two per-file results, u16 counts (bounded; cross-check only)", "harnesses": out,
                                   "wall_s": round(time.time() - t0, 1)}
        bad = [h for h, v in out.items() if not v["successful"]]
        if bad:
            res["undecided"] = "Kani on the unrewritten crate disagrees with Verus on the woven text for %s: a rewrite rule or a contract is wrong" % ", ".join(bad)
    finally:
        shutil.rmtree(scratch, ignore_errors=True)
    return res
