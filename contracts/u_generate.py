"""Unit `generate`: everything in generate.rs that the properties depend on — the processors (see u_procs), load_code,
process_references (one monomorphised copy per call site, R10; async block lifted, R2), check_references, generate_code."""
import re
from weave.weaver import Unit, LostAnchor
from weave import rules
from . import common, u_procs
from .common import GEN, CTX, FIN, CP
from .u_procs import LOG_SCHEMA

FILES = "paths_of(finder.code_files@)"


def config_types(u):
    de_serde = common.de_serde
    u.real_item(CTX, r"pub struct RustLogMacro\b", de_serde, "serde/derive attributes dropped (read by the C16 contract generator)")
    u.real_item(CTX, r"pub struct RustConfig\b", de_serde)
    u.real_item(CTX, r"pub struct Config\b", de_serde)
    u.real_item(CTX, r"pub struct Context\b", de_serde)
    u.real_item(CP, r"pub enum CodeLanguage\b", lambda t: common.wrap(common.strip_doc(re.sub(r"#\[derive\([^\]]*\)\]", "#[derive(Clone, Copy)]", t))))
    u.real_item(FIN, r"pub struct CodeFile\b", lambda t: common.wrap(common.pub_fields(common.strip_doc(t))))
    u.real_item(FIN, r"pub struct CodeFinder\b", lambda t: common.wrap(common.pub_fields(common.strip_doc(t))))
    u.rules_log.append(("R9", "Config: derived Clone replaced by a copy contract; serde derives dropped"))


def load_code(u):
    f = u.real_fn(GEN, "load_code", props=("C04", "C05", "C17"))
    rules.sig(f, ret="r", world=True)
    rules.r1_logs(f, schema=LOG_SCHEMA)
    rules.r8_thread(f, [r"async_std::fs::read_to_string\("])
    # C18: "finishes the file it is working on, stops": the stop flag must have been polled since the previous file was started
    f.requires.append(("C18.poll", "old(w).poll_fresh"))
    f.at_start(" proof { consume_poll(w); }")
    f.ensures += [
        ("C04.frame", "final(w).fs == old(w).fs && same_but_fs(World { log: final(w).log, ..*old(w) }, *final(w))"),
        ("C18.poll", "!final(w).poll_fresh"),
        ("C17.skip", "r.is_some() == readable(path@)"),
        ("C05.content", "r.is_some() ==> old(w).fs.dom().contains(path@) && encode_utf8(r.unwrap()@) == old(w).fs[path@]"),
        ("C05.where", "final(w).log == (if r.is_some() { old(w).log } else { old(w).log.push(Event { tag: 4, strs: seq![], nums: seq![] }) })"),
    ]


def process_references(u, inst, proc, param_t, map_t, red_t, props, thread=("map", "reduce")):
    """One monomorphised copy of the generic driver (R10) for call site `inst`."""
    f = u.real_fn(GEN, "process_references", emit_name="process_references_%s" % inst, props=props)
    rules.sig(f, replace_header="pub fn process_references_%s(context: &Context, params: Option<%s>, finder: &CodeFinder, %s) -> (res: Option<%s>)"
              % (inst, param_t, rules.WORLD_PARAM, red_t))
    blk = rules.r2_lift_block_on(f, u, "process_references_%s_blk" % inst,
                                 [("config_task_outer", "Config"), ("stop_flag", "Arc<AtomicBool>"), ("params", "Option<%s>" % param_t), ("finder", "&CodeFinder<'_>")],
                                 "Option<%s>" % red_t, props=props)
    rules.sig(blk, ret="res", world=True)
    rules.r10_mono(blk, {"ProcessorType": proc})
    rules.r9_stop_poll(blk, ["stop_flag"])
    rules.r8_thread(blk, [r"load_code\("] + [r"ProcessorType::%s\(" % t for t in thread])
    return f, blk


def r10_call(w, proc, inst):
    """R10 at a call site: `process_references::<Proc, ..>(` -> `process_references_<inst>(` and thread the World."""
    from weave import lexer
    hits = [h for h in re.finditer(r"process_references::<\s*%s\b" % re.escape(proc), w.mbody)]
    if len(hits) < 1:
        raise LostAnchor("call of process_references::<%s..> in %s: no match" % (proc, w.qual()))
    for h in hits:
        i = w.mbody.index("<", h.start())
        depth = 0
        while True:
            ch = w.mbody[i]
            if ch == "<":
                depth += 1
            elif ch == ">":
                depth -= 1
                if depth == 0:
                    break
            i += 1
        po = w.mbody.index("(", i)
        pc = lexer.match_close(w.body, po)
        w.replace(h.start(), po, "process_references_%s" % inst, "R10", "call of the monomorphised copy for %s" % proc)
        inner = w.body[po + 1:pc]
        w.insert_at(pc, (" " if inner.rstrip().endswith(",") else ", ") + rules.WORLD_ARG, "R8", "World arg")


def count_driver(u):
    props = ("C04", "C05", "C17", "C18")
    f, blk = process_references(u, "count", "CountMissingReferenceIdProcessor", "u32", "u32", "u32", props)
    cfg = "context.config"
    pre = [
        "finder_ok(finder.code_files@, *old(w))",
        "tree_small(old(w).files, old(w).fs)",
    ]
    post = [
        ("C04.frame", "final(w).fs == old(w).fs && same_but_fs(World { log: final(w).log, stop_seen: final(w).stop_seen, ..*old(w) }, *final(w))"),
        ("C18.check,C05.verdict,C17.skip", "res.is_none() ==> final(w).stop_seen"),
        ("C18.check", "final(w).stop_seen ==> old(w).stop_seen || res.is_none()"),
        ("C05.verdict,C17.skip", "res.is_some() ==> res.unwrap() as int == tree_missing(old(w).files, old(w).fs, CFG, old(w).files.len() as int)"),
        # what is reported: per file its missing-reference lines (path, line, column) and its total, then the overall total
        ("C05.where", "res.is_some() ==> final(w).log =~= (old(w).log + tree_report(old(w).files, old(w).fs, CFG, old(w).files.len() as int))"
         ".push(Event { tag: 7, strs: seq![], nums: seq![tree_missing(old(w).files, old(w).fs, CFG, old(w).files.len() as int)] })"),
    ]
    f.requires += pre
    f.ensures += [(l, x.replace("CFG", cfg)) for l, x in post]
    blk.requires += pre
    blk.ensures += [(l, x.replace("CFG", "config_task_outer")) for l, x in post]
    blk.at_start(" let ghost files = w.files; let ghost cfg = config_task_outer; let ghost fs0 = w.fs;"
                 " proof { lemma_tree_missing_nonneg(files, fs0, cfg, 0); assert(tree_missing(files, fs0, cfg, files.len() as int) <= u32::MAX); }")
    blk.loop_spec(0, [
        "0 <= it.index@ <= files.len()", "files == old(w).files", "cfg == config_task_outer", "fs0 == old(w).fs",
        "finder_ok(finder.code_files@, *w)",
        "tree_missing(files, fs0, cfg, files.len() as int) <= u32::MAX",
        ("C04.frame", "w.fs == old(w).fs && same_but_fs(World { log: w.log, stop_seen: w.stop_seen, ..*old(w) }, *w)"),
        ("C18.check", "w.stop_seen == old(w).stop_seen"),
        ("C05.verdict,C17.skip", "all_map_results@ == count_results(files, fs0, cfg, it.index@)"),
        ("C05.where", "w.log =~= old(w).log + tree_report(files, fs0, cfg, it.index@)"),
        ("C05.verdict", "forall|i: int| 0 <= i < it.index@ ==> file_missing(fs0, cfg, #[trigger] files[i]) <= u32::MAX"),
    ], iter_name="it", kind="for")
    blk.before_stmt("let path = file.path.clone();", "proof { lemma_tree_missing_mono(files, fs0, cfg, it.index@ + 1, files.len() as int);"
                    " lemma_tree_missing_nonneg(files, fs0, cfg, it.index@); assert(files[it.index@] == file.path@); lemma_tree_report_step(old(w).log, files, fs0, cfg, it.index@ + 1); }\n            ")
    blk.before("ProcessorType::reduce(", "proof { lemma_count_results_sum(files, fs0, cfg, files.len() as int); }\n        ")
    return f, blk


def nextid_driver(u):
    props = ("C01", "C05", "C06", "C16", "C17", "C18")
    f, blk = process_references(u, "nextid", "NextReferenceIdProcessor", "u32", "(u32, usize)", "(u32, usize)", props, thread=())
    cfg = "context.config"
    pre = [
        "finder_ok(finder.code_files@, *old(w))",
        "tree_small(old(w).files, old(w).fs)",
    ]
    tm = "tree_missing(old(w).files, old(w).fs, CFG, old(w).files.len() as int)"
    tx = "tree_max(old(w).files, old(w).fs, CFG, old(w).files.len() as int)"
    post = [
        ("C04.frame", "final(w).fs == old(w).fs && same_but_fs(World { log: final(w).log, stop_seen: final(w).stop_seen, ..*old(w) }, *final(w))"),
        ("C18.edit,C08.fail,C17.skip", "res.is_none() ==> final(w).stop_seen"),
        ("C05.same", "res.is_some() ==> res.unwrap().1 as int == %s" % tm),
        # the first new ID is 1 on a tree without IDs, else greater than every existing one (u32::MAX is never handed out)
        ("C01.next", "res.is_some() ==> res.unwrap().0 >= 1 && (res.unwrap().0 as int > %s || res.unwrap().0 == u32::MAX)" % tx),
        ("C01.next", "res.is_some() ==> (%s == 0 ==> res.unwrap().0 == 1)" % tx),
    ]
    f.requires += pre
    f.ensures += [(l, x.replace("CFG", cfg)) for l, x in post]
    blk.requires += pre
    blk.ensures += [(l, x.replace("CFG", "config_task_outer")) for l, x in post]
    blk.at_start(" let ghost files = w.files; let ghost cfg = config_task_outer; let ghost fs0 = w.fs;"
                 " proof { lemma_tree_missing_nonneg(files, fs0, cfg, 0); assert(tree_missing(files, fs0, cfg, files.len() as int) <= u32::MAX); }")
    blk.loop_spec(0, [
        "0 <= it.index@ <= files.len()", "files == old(w).files", "cfg == config_task_outer", "fs0 == old(w).fs",
        "finder_ok(finder.code_files@, *w)",
        "tree_missing(files, fs0, cfg, files.len() as int) <= u32::MAX",
        ("C04.frame", "w.fs == old(w).fs && same_but_fs(World { log: w.log, stop_seen: w.stop_seen, ..*old(w) }, *w)"),
        ("C01.next,C05.same,C17.skip", "all_map_results@ == nextid_results(files, fs0, cfg, it.index@)"),
        ("C05.same", "forall|i: int| 0 <= i < it.index@ ==> file_missing(fs0, cfg, #[trigger] files[i]) <= u32::MAX"),
    ], iter_name="it", kind="for")
    blk.before_stmt("let path = file.path.clone();", "proof { lemma_tree_missing_mono(files, fs0, cfg, it.index@ + 1, files.len() as int);"
                    " lemma_tree_missing_nonneg(files, fs0, cfg, it.index@); assert(files[it.index@] == file.path@);"
                    " if readable(file.path@) { lemma_max_ref_bounds(found(fs0[file.path@], cfg), found(fs0[file.path@], cfg).len() as int);"
                    " lemma_n_missing_bounds(found(fs0[file.path@], cfg), found(fs0[file.path@], cfg).len() as int); } }\n            ")
    blk.before("ProcessorType::reduce(", "proof { lemma_nextid_results(files, fs0, cfg, files.len() as int); }\n        ")
    return f, blk


def insert_driver(u):
    props = ("C01", "C02", "C03", "C05", "C06", "C07", "C08", "C15", "C17", "C18")
    f, blk = process_references(u, "insert", "InsertReferencesProcessor", "Arc<AtomicU32>", "InsertReferencesResult", "InsertReferencesResult", props, thread=("map",))
    pre = [
        "finder_ok(finder.code_files@, *old(w))",
        "tree_small(old(w).files, old(w).fs)",
        "atomic_inv(*old(w))", "!old(w).check_mode", "params.is_some()",
        "1 <= old(w).counter <= u32::MAX",
        "old(w).fs == old(w).orig", "old(w).intended == Map::<Seq<char>, Seq<u8>>::empty()", "old(w).alloc == Map::<Seq<char>, int>::empty()",
    ]
    post = [
        ("C07.frame", "atomic_inv(*final(w))"),
        ("C01.unique", "alloc_inv(*final(w), CFG, old(w).counter)"),
        ("C03.splice,C07.frame", "content_inv(*final(w), CFG)"),
        ("C01.nowrap", "old(w).counter <= final(w).counter <= u32::MAX"),
        ("C18.edit,C08.fail,C17.skip", "res.is_none() ==> final(w).stop_seen"),
        ("C08.fail,C17.skip", "res.is_some() && !res.unwrap().failure ==> all_edited(*final(w), CFG, final(w).files.len() as int)"),
        ("C05.count", "res.is_some() && !res.unwrap().failure ==> res.unwrap().num_inserted_references as int == tree_missing(old(w).files, old(w).orig, CFG, old(w).files.len() as int)"),
        ("C06.noop", "tree_missing(old(w).files, old(w).orig, CFG, old(w).files.len() as int) == 0 ==> final(w).fs == old(w).fs && final(w).counter == old(w).counter"),
        ("C02.lockframe", "final(w).fs.dom().contains(lock_path()) == old(w).fs.dom().contains(lock_path()) && final(w).fs[lock_path()] == old(w).fs[lock_path()]"),
        ("C04.frame", "final(w).orig == old(w).orig && final(w).protected == old(w).protected && final(w).files == old(w).files && final(w).check_mode == old(w).check_mode && final(w).handlers == old(w).handlers"),
    ]
    f.requires += pre
    f.ensures += [(l, x.replace("CFG", "context.config")) for l, x in post]
    blk.requires += pre
    blk.ensures += [(l, x.replace("CFG", "config_task_outer")) for l, x in post]
    blk.at_start(" let ghost files = w.files; let ghost cfg = config_task_outer; let ghost start = w.counter;"
                 " proof { lemma_tree_missing_nonneg(files, w.orig, cfg, 0); assert(tree_missing(files, w.orig, cfg, files.len() as int) <= u32::MAX); }")
    blk.loop_spec(0, [
        "0 <= it.index@ <= files.len()", "files == old(w).files", "files == w.files", "cfg == config_task_outer", "start == old(w).counter",
        "finder_ok(finder.code_files@, *w)", "params.is_some()", "!w.check_mode",
        "tree_missing(files, w.orig, cfg, files.len() as int) <= u32::MAX",
        ("C07.frame", "atomic_inv(*w)"),
        ("C04.frame", "w.orig == old(w).orig && w.protected == old(w).protected && w.files == old(w).files && w.check_mode == old(w).check_mode && w.handlers == old(w).handlers"),
        ("C18.edit", "w.stop_seen == old(w).stop_seen"),
        ("C01.nowrap", "1 <= start <= w.counter <= u32::MAX"),
        ("C01.unique", "alloc_inv(*w, cfg, start)"),
        ("C03.splice,C07.frame", "content_inv(*w, cfg)"),
        # files not yet visited are exactly as at the start of the run
        ("C03.splice,C07.frame", "forall|i: int| it.index@ <= i < files.len() ==> w.fs[#[trigger] files[i]] == w.orig[files[i]] && !w.intended.dom().contains(files[i]) && !w.alloc.dom().contains(files[i])"),
        ("C07.intended", "forall|p: Seq<char>| w.intended.dom().contains(p) ==> w.protected.contains(p)"),
        ("C08.fail", "!any_failure(all_map_results@) ==> all_edited(*w, cfg, it.index@)"),
        ("C05.count", "!any_failure(all_map_results@) ==> sum_inserted(all_map_results@) == tree_missing(files, w.orig, cfg, it.index@)"),
        ("C05.count", "0 <= sum_inserted(all_map_results@) <= tree_missing(files, w.orig, cfg, it.index@)"),
        ("C06.noop", "tree_missing(files, w.orig, cfg, it.index@) == 0 ==> w.fs == old(w).fs && w.counter == old(w).counter"),
        ("C02.lockframe", "w.fs.dom().contains(lock_path()) == old(w).fs.dom().contains(lock_path()) && w.fs[lock_path()] == old(w).fs[lock_path()]"),
    ], iter_name="it", kind="for")
    lob = blk.loop_open_brace(blk.loops()[0][2])
    blk.insert_at(lob + 1, " proof { lemma_tree_missing_mono(files, w.orig, cfg, it.index@ + 1, files.len() as int);"
                  " lemma_tree_missing_mono(files, w.orig, cfg, it.index@, files.len() as int);"
                  " lemma_tree_missing_nonneg(files, w.orig, cfg, it.index@); assert(files[it.index@] == file.path@); }"
                  " let ghost w0 = *w; let ghost res0 = all_map_results@;")
    # ghost bookkeeping after the file's map: remember the first ID of a replaced file, and re-establish the tree invariants
    # (keyed on the map call and on the push of its result, so `if let` and `match` forms of the same code both work)
    blk.before_stmt("ProcessorType::map(", "let ghost w_mid = *w;\n                ")
    blk.before_stmt(".push(map_result)", "proof { if w.fs[file.path@] != w.orig[file.path@] { record_alloc(w, file.path@, w_mid.counter); } }\n                    ")
    blk.after_stmt(".push(map_result)", """
                    proof {
                        let p = file.path@;
                        assert(all_map_results@.drop_last() == res0);
                        assert forall|i: int| it.index@ + 1 <= i < files.len() implies
                            w.fs[#[trigger] files[i]] == w.orig[files[i]] && !w.intended.dom().contains(files[i]) && !w.alloc.dom().contains(files[i]) by {
                            assert(files[i] != p);
                            assert(w.protected.contains(files[i]));
                        }
                        assert forall|q: Seq<char>| w.intended.dom().contains(q) implies w.protected.contains(q) by {
                            if q != p { assert(w0.intended.dom().contains(q)); }
                        }
                    }
                """)
    blk.before("ProcessorType::reduce(", "proof { assert(tree_missing(files, w.orig, cfg, files.len() as int) <= u32::MAX); }\n        ")
    return f, blk


def check_references(u):
    f = u.real_fn(GEN, "check_references", props=("C04", "C05", "C16", "C17", "C18"))
    rules.sig(f, ret="res", world=True)
    rules.r1_logs(f, schema=LOG_SCHEMA)
    rules.r8_thread(f, [r"CodeFinder::new\("])
    r10_call(f, "CountMissingReferenceIdProcessor", "count")
    rules.r16_map_or(f)
    f.requires += [
        "old(w).protected == Set::<Seq<char>>::empty()", "old(w).files == Seq::<Seq<char>>::empty()",
    ]
    tm = "tree_missing(final(w).files, old(w).fs, context.config, final(w).files.len() as int)"
    f.ensures += [
        ("C04.frame", "final(w).fs == old(w).fs && final(w).orig == old(w).orig && final(w).check_mode == old(w).check_mode && final(w).handlers == old(w).handlers"
         " && final(w).intended == old(w).intended && final(w).alloc == old(w).alloc"),
        # exact verdict: success iff at least one file was found, the pass was not interrupted, and nothing lacks a reference
        ("C05.verdict,C16.errors", "res.is_ok() ==> final(w).files.len() > 0 && %s == 0" % tm),
        ("C18.check", "res.is_ok() ==> !final(w).stop_seen || old(w).stop_seen"),
        ("C05.verdict", "res.is_err() ==> final(w).files.len() == 0 || final(w).stop_seen || %s > 0" % tm),
    ]
    return f


def generate_code(u):
    f = u.real_fn(GEN, "generate_code", props=("C01", "C02", "C03", "C04", "C05", "C06", "C07", "C08", "C15", "C16", "C17", "C18"))
    rules.sig(f, ret="res", world=True)
    rules.r1_logs(f, schema=LOG_SCHEMA)
    rules.r8_thread(f, [r"CodeFinder::new\(", r"context\.cache_next_reference_id\("])
    r10_call(f, "NextReferenceIdProcessor", "nextid")
    r10_call(f, "InsertReferencesProcessor", "insert")
    # R9: the run's counter is created once; its load is the mathematical value
    for h in re.finditer(r"let\s+(\w+)\s*=\s*Arc::new\(\s*AtomicU32::new\(\s*(\w+)\s*\)\s*\)\s*;", f.mbody):
        f.insert_at(h.end(), " proof { axiom_counter_new(w, %s); }" % h.group(2), "R9", "counter creation axiom")
    counters = [h.group(1) for h in re.finditer(r"let\s+(\w+)\s*=\s*Arc::new\(\s*AtomicU32::new\(", f.mbody)]
    for cv in counters:
        for h in re.finditer(r"\b%s\s*\.load\(\s*(?:std::sync::atomic::|atomic::)?Ordering::Relaxed\s*\)" % re.escape(cv), f.mbody):
            # occurrences inside log statements disappear with R1; the remaining ones read the counter
            if not any(ed.s <= h.start() < ed.e for ed in f.edits):
                f.replace(h.start(), h.end(), "counter_load(&%s, Tracked(w))" % cv, "R9", "counter load via sequential-counter shim")
    rules.r9_stop_poll(f, ["context.stop_commanded"])
    cfg = "context.config"
    tmiss = "tree_missing(final(w).files, old(w).fs, %s, final(w).files.len() as int)" % cfg
    tmax = "tree_max(final(w).files, old(w).fs, %s, final(w).files.len() as int)" % cfg
    f.requires += [
        "!old(w).check_mode",
        "old(w).fs == old(w).orig", "old(w).intended == Map::<Seq<char>, Seq<u8>>::empty()", "old(w).alloc == Map::<Seq<char>, int>::empty()",
        "old(w).protected == Set::<Seq<char>>::empty()", "old(w).files == Seq::<Seq<char>>::empty()",
        "!is_temp(lock_path())",
        "context.config.config_dir@ == config_dir()",
        # assumption: a lock value, when present, was written by Breadlog (first ID is 1)
        "context.cached_next_reference_id.is_some() ==> context.cached_next_reference_id.unwrap() >= 1",
    ]
    f.ensures += [
        ("C07.frame", "atomic_inv(*final(w))"),
        # every ID written is one of alloc[p] .. alloc[p]+n(p) of a replaced file; ranges are disjoint and lie in 1 ..= u32::MAX
        ("C01.unique", "alloc_inv(*final(w), %s, 1)" % cfg),
        ("C03.splice,C07.frame", "content_inv(*final(w), %s)" % cfg),
        ("C01.nowrap", "forall|p: Seq<char>| #[trigger] final(w).alloc.dom().contains(p) ==> final(w).alloc[p] + n_of(*final(w), %s, p) <= u32::MAX" % cfg),
        # with a lock the first ID is the lock's value; without one every new ID is greater than every existing one
        ("C01.unique", "context.cached_next_reference_id.is_some() ==> forall|p: Seq<char>| #[trigger] final(w).alloc.dom().contains(p) ==> final(w).alloc[p] >= context.cached_next_reference_id.unwrap()"),
        ("C01.unique", "context.cached_next_reference_id.is_none() ==> forall|p: Seq<char>| #[trigger] final(w).alloc.dom().contains(p) ==> final(w).alloc[p] > %s" % tmax),
        ("C08.fail", "res.is_ok() ==> final(w).files.len() > 0 && all_edited(*final(w), %s, final(w).files.len() as int)" % cfg),
        ("C06.noop", "%s == 0 ==> forall|p: Seq<char>| p != lock_path() ==> (#[trigger] final(w).fs.dom().contains(p)) == old(w).fs.dom().contains(p)" % tmiss),
        ("C06.noop", "%s == 0 ==> forall|p: Seq<char>| p != lock_path() ==> (#[trigger] final(w).fs[p]) == old(w).fs[p]" % tmiss),
        # the count printed ([ref: 21]) is the number of tokens inserted: printed only on the all-success path, where every
        # statement lacking a reference received one
        ("C05.count", "res.is_ok() && final(w).log.len() > old(w).log.len() && final(w).log.last().tag == 21 ==> final(w).log.last().nums =~= seq![%s]" % tmiss),
        ("C16.nocache", "!%s.use_cache ==> final(w).fs.dom().contains(lock_path()) == old(w).fs.dom().contains(lock_path()) && final(w).fs[lock_path()] == old(w).fs[lock_path()]" % cfg),
        # the lock covers every ID written (D10/D12: unless the lock write itself failed)
        ("C02.step,C18.edit", "%s.use_cache && !(final(w).alloc.dom() =~= Set::<Seq<char>>::empty()) ==> "
         "(final(w).fs.dom().contains(lock_path()) && final(w).fs[lock_path()] == lock_bytes(final(w).counter as u32)) || lock_write_failed()" % cfg),
        # ... and strictly (no escape for a failed lock write): KNOWN FINDING, the write error is only logged and the run exits 0
        ("C02.lockfail", "%s.use_cache && !(final(w).alloc.dom() =~= Set::<Seq<char>>::empty()) ==> "
         "final(w).fs.dom().contains(lock_path()) && final(w).fs[lock_path()] == lock_bytes(final(w).counter as u32)" % cfg),
        ("C04.frame", "final(w).orig == old(w).orig && final(w).check_mode == old(w).check_mode && final(w).handlers == old(w).handlers"),
    ]
    # hints
    s0, e0, _ = f.find_one("if let Some(finder) = CodeFinder::new(")
    ob = f.mbody.index("{", e0)
    f.insert_at(s0, "let ghost wpre = *w;\n    ")
    f.insert_at(ob + 1, " proof { assert(w.fs == wpre.fs);"
                " assert forall|p: Seq<char>| w.protected.contains(p) implies w.fs.dom().contains(p) && w.orig.dom().contains(p) by {}"
                " assert(atomic_inv(*w)); assert(alloc_inv(*w, %s, 1)); assert(content_inv(*w, %s)); }" % (cfg, cfg))
    f.before_stmt("return Ok(0);", "proof { lemma_all_edited_when_none_missing(*w, %s); }\n                    " % cfg)
    return f


def build():
    u = Unit("generate")
    u.include("shims/prelude.rs")
    common.entry_types(u)
    u.include("spec/entries.rs")
    u.include("shims/io.rs")
    config_types(u)
    u.include("shims/driver_stubs_core.rs")
    from . import u_find
    _tmpp = Unit("tmpp")
    _fr = u_find.find_references(_tmpp)
    u.raw("verus! {\n")
    u.stub_of(_fr, note="find_references: positions contract proved in unit `find`; purity and size bound assumed",
              extra_ensures=["r@ == found(code.spec_bytes(), *config)", "r@.len() <= u32::MAX"])
    u.raw("}\n")
    u.include("shims/walk.rs")
    from . import u_finder
    _tmpf = Unit("tmpf")
    _fn = u_finder.finder_new(_tmpf)
    u.raw("verus! {\nimpl<'ctx> CodeFinder<'ctx> {\n")
    u.stub_of(_fn, note="CodeFinder::new: contract proved in unit `finder`")
    u.raw("}\n}\n")
    # the lock writer's contract, exactly as proved in unit `context`
    from . import u_context
    tmp = Unit("tmp")
    cw = u_context.cache_writer(tmp)
    u.raw("verus! {\nimpl Context {\n")
    u.stub_of(cw, note="Context::cache_next_reference_id: contract proved in unit `context`")
    u.raw("}\n}\n")
    u.include("spec/report.rs")
    common.entry_accessors(u, with_token=True)
    u.real_item(GEN, r"const START_REFERENCE_ID\b", lambda t: common.wrap(t))
    u.real_item(GEN, r"struct InsertReferencesResult\b", lambda t: common.wrap(common.pub_fields(common.strip_doc(t))), "R7")
    u.include("spec/ids.rs")
    u.include("spec/tree.rs")
    u.include("spec/history.rs")
    u_procs.next_id_processor(u)
    u_procs.count_processor(u)
    u_procs.insert_processor(u)
    u.raw("verus! {\n")
    load_code(u)
    count_driver(u)
    check_references(u)
    nextid_driver(u)
    insert_driver(u)
    generate_code(u)
    u.raw("}\n")
    u.raw("fn main() {}\n")
    u.assume("the tree has fewer than 2^32 recognised statements per file and in total (u32/usize sums of per-file counts cannot overflow)")
    return u
