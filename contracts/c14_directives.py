"""C14 — BOUNDED stand-in for the std/regex functions the directive scan is proved *relative to* (str::lines, trim, to_lowercase,
Regex::captures are uninterpreted in unit `directive`): an enumerated family of directive placements is put through the release binary
built from the current tree and compared with what the property says.  Labelled bounded; never counted as proved."""
import os
import re
import shutil
import subprocess
import time

ROOT = os.path.dirname(os.path.dirname(os.path.abspath(__file__)))
REPO = os.environ.get("VERIF_REPO", "/repo")


def cases():
    """(description, file text with statements S1[, S2], expected: list of booleans 'statement k is affected by the directive')"""
    S1, S2 = 'info!("first");', 'info!("second");'
    out = []
    spell = ["// breadlog:DIR", "//breadlog:DIR", "//   breadlog:DIR   ", "// BreadLog:DIR".replace("DIR", "DIR"), "/* breadlog:DIR */", "/*breadlog:DIR*/", "    // breadlog:DIR"]
    for sp in spell:
        out.append(("directive directly above (%s)" % sp.strip(), "fn f() {\n%s\n    %s\n}\n" % (sp, S1), [True]))
    up = "// BREADLOG:" + "DIR"
    out.append(("upper case", "fn f() {\n    %s\n    %s\n}\n" % (up, S1), [True]))
    for k in (1, 2, 3):
        out.append(("%d blank line(s) between" % k, "fn f() {\n    // breadlog:DIR\n%s    %s\n}\n" % ("\n" * k, S1), [True]))
    out.append(("whitespace-only lines between", "fn f() {\n    // breadlog:DIR\n   \n\t\n    %s\n}\n" % S1, [True]))
    out.append(("code line between", "fn f() {\n    // breadlog:DIR\n    let a = 1;\n    %s\n}\n" % S1, [False]))
    out.append(("other comment line between", "fn f() {\n    // breadlog:DIR\n    // something else\n    %s\n}\n" % S1, [False]))
    out.append(("directive after the statement", "fn f() {\n    %s\n    // breadlog:DIR\n}\n" % S1, [False]))
    out.append(("directive at the end of the statement's line", "fn f() {\n    %s // breadlog:DIR\n}\n" % S1, [False]))
    out.append(("other text after the directive", "fn f() {\n    // breadlog:DIR please\n    %s\n}\n" % S1, [False]))
    out.append(("other text before the directive", "fn f() {\n    // please breadlog:DIR\n    %s\n}\n" % S1, [False]))
    out.append(("longer word", "fn f() {\n    // breadlog:DIRx\n    %s\n}\n" % S1, [False]))
    out.append(("two statements on consecutive lines", "fn f() {\n    // breadlog:DIR\n    %s\n    %s\n}\n" % (S1, S2), [True, False]))
    out.append(("two statements on the same line", "fn f() {\n    // breadlog:DIR\n    %s %s\n}\n" % (S1, S2), [True, True]))
    out.append(("directive on the first line of the file", "// breadlog:DIR\n%s\n" % S1, [True]))
    out.append(("no directive at all", "fn f() {\n    %s\n}\n" % S1, [False]))
    out.append(("CRLF line ends", "fn f() {\r\n    // breadlog:DIR\r\n\r\n    %s\r\n}\r\n" % S1, [True]))
    out.append(("wrapped statement", "fn f() {\n    // breadlog:DIR\n    info!(\n        \"first\"\n    );\n}\n", [True]))
    return out


def run(tier, seed):
    t0 = time.time()
    res = {"bounded": True, "violations": [], "obligations": 0, "discharged": 0}
    from . import e2e
    bld = e2e.build()
    if not bld["ok"]:
        res["undecided"] = "cargo build failed: " + bld["err"]
        return res
    scratch = "%s/c14_%d" % (bld["scratch"], int(time.time() * 1000) % 100000)
    os.makedirs(scratch)
    try:
        binp = bld["bin"]
        cs = cases()
        n = 0
        samples = []
        for directive, structured in (("ignore", False), ("ignore", True), ("no-kvp", True)):
            proj = "%s/p_%s_%s" % (scratch, directive.replace("-", ""), "s" if structured else "u")
            os.makedirs(proj + "/src")
            with open(proj + "/Breadlog.yaml", "w") as f:
                f.write("source_dir: ./src\nuse_cache: false\nrust:\n  structured: %s\n  log_macros:\n    - module: log\n      name: info\n" % ("true" if structured else "false"))
            files = {}
            for i, (desc, txt, exp) in enumerate(cs):
                txt = txt.replace("DIR", directive if "BREADLOG" not in txt else directive.upper())
                p = "%s/src/c%03d.rs" % (proj, i)
                with open(p, "wb") as f:
                    f.write(txt.encode())
                files[p] = (desc, txt, exp)
            subprocess.run([binp, "-c", proj + "/Breadlog.yaml"], capture_output=True, text=True)
            for p, (desc, txt, exp) in files.items():
                new = open(p, "rb").read().decode()
                for k, affected in enumerate(exp):
                    n += 1
                    word = ("first", "second")[k]
                    msg_tok = re.search(r'"\[ref: \d+\] %s"' % word, new) is not None
                    kv_tok = re.search(r'info!\(\s*ref = \d+; \s*"%s"' % word, new) is not None
                    if directive == "ignore":
                        ok = (not msg_tok and not kv_tok) if affected else ((kv_tok and not msg_tok) if structured else (msg_tok and not kv_tok))
                        want = "skipped" if affected else "given a reference"
                    else:
                        ok = (msg_tok and not kv_tok) if affected else (kv_tok and not msg_tok)
                        want = "referenced in the message text" if affected else "given a `ref =` key-value"
                    if not ok:
                        res["violations"].append({"label": "C14.placement", "obligation_id": "C14.placement @ directive scan (bounded run): %s" % desc,
                                                  "msg": "statement `%s` should be %s" % (word, want), "src": "src/parser/code_parser.rs", "sline": None,
                                                  "site_text": "breadlog:%s, %s style, %s: %r -> %r" % (directive, "structured" if structured else "unstructured", desc, txt, new),
                                                  "extra": {"failing_input": txt, "structured": structured, "directive": directive, "what": "statement `%s` should be %s" % (word, want), "after": new}})
            samples.append({"directive": directive, "style": "structured" if structured else "unstructured", "case": cs[9][0]})
        res.update({"evaluations": n, "distinct_nontrivial": n,
                    "rule": "directive placements: spellings (//, /* */, spacing, letter case), 0-3 blank or whitespace-only lines between, a code or comment line between, directive after / on "
                            "the statement's line, extra text in the comment, one directive followed by two statements (next line / same line), first line of the file, CRLF, wrapped statement; "
                            "for breadlog:ignore in both styles and breadlog:no-kvp in structured style; expectation taken from the property text",
                    "samples": samples, "exhaustive": True, "cases": len(cs), "wall_s": round(time.time() - t0, 1)})
        res["violations"] = res["violations"][:6]
    finally:
        shutil.rmtree(scratch, ignore_errors=True)
    return res
