"""Property -> units, level, assumptions.  Kept in step with MANIFEST.json by bin/gen_manifest.py."""

PROPS = {
    "C03": {
        "units": ["entry"],
        "level": "proof",
        "assumptions": [],
    },
}
