"""Property -> units, level, assumptions.  Kept in step with MANIFEST.json by bin/gen_manifest.py."""

PROPS = {
    "C01": {"units": ["procs"], "level": "proof", "assumptions": []},
    "C03": {"units": ["procs"], "level": "proof", "assumptions": []},
    "C05": {"units": ["procs"], "level": "proof", "assumptions": []},
    "C07": {"units": ["procs"], "level": "proof", "assumptions": []},
    "C08": {"units": ["procs"], "level": "proof", "assumptions": []},
    "C17": {"units": ["procs"], "level": "proof", "assumptions": []},
}
