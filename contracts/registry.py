"""Property -> units, level, assumptions.  Single source of truth for what is claimed; bin/gen_manifest.py writes
MANIFEST.json from it."""
from . import c12 as _c12
from . import c01_kani as _c01k
from . import c06_roundtrip as _c06r
from . import c11_decoys as _c11d
from . import c14_directives as _c14d
from . import e2e as _e2e
from . import e2e_faults as _e2ef
from . import e2e_signals as _e2es

TECH = ("contract-based deductive verification: Verus discharges contracts woven into the real functions extracted from "
        "/repo on every run (units: %s); vacuity canary copies; failures mapped to the property by contract labels. Bounded parts "
        "(labelled bounded, never counted in obligations/discharged): generated project trees, fault points and stop signals run through the release "
        "binary of the current tree - the stand-in when a change puts a function outside the verifier's subset, and the source of a concrete failing input")


def _p(units, note, text, level="proof", **kw):
    d = {"units": units, "level": level, "assumptions": [], "level_note": note, "level_text": text}
    d.update(kw)
    return d


COMMON_TRUST = ("Assumed: the shims' contracts for std / async-std / walkdir / pest / serde_yaml / clap / signal_hook (shims/*.rs, listed with "
                "every admit/external_body in the evidence trust scan); sequential use of the single ID counter; no concurrent modification of the "
                "tree during a run; fewer than 2^32 statements.")

PROPS = {
    "C01": _p(["generate", "find", "entry", "directive", "context"], COMMON_TRUST + " A lock value, when present, is >= 1 (written by Breadlog).",
              "proof for all entry lists / file sets / counter values: reduce, Insert::map (consecutive checked IDs), the drivers' alloc_inv "
              "(disjoint ranges above every existing ID) and generate_code; Kani finds counterexamples for failed obligations and, in the thorough tier, "
              "cross-checks the reduce functions on the unrewritten crate (bounded)", extra=[("kani_cross_check", _c01k.run)]),
    "C02": _p(["generate", "context", "main"], COMMON_TRUST + " TWO KNOWN FINDINGS (known_findings.json, reproduced by findings/*.sh): the lock is written after the "
              "source files, so (a) a kill between a rename and the lock write [C02.writeahead at the rename call site] and (b) a failed lock write, which "
              "is only logged [C02.lockfail of generate_code], leave a stale lock; every other obligation of C02 is discharged.",
              "step contract on generate_code for every exit (success, failed file, stop request): with the cache in use the lock file holds the counter "
              "value, which is >= every ID written (given the lock write succeeds); the lock writer's contract is proved in unit context; spec/history.rs "
              "proves by induction over histories (developer edits, check runs, edit runs satisfying the step contract) that the lock dominates every ID ever "
              "written, hence no ID is written twice; unit main: both stop signals are wired to the stop flag before the edit driver is called "
              "(a delivered signal therefore ends the run through generate_code's exits, which write the lock) and no handler that terminates the process is installed"),
    "C03": _p(["generate", "find", "entry", "directive"], COMMON_TRUST,
              "Insert::map: the file is its original or an is_token_insertion of it (splice over exactly the missing entries, lemma erase==original); "
              "frame on all other paths; insertion offsets proved in range and ordered for `find`'s result"),
    "C04": _p(["generate", "main", "context", "finder"], COMMON_TRUST + " Only calls that have a shim can be judged: an unshimmed external call makes the unit UNDECIDED.",
              "every mutating shim requires !check_mode at its call site; check_references / main's check branch / Context::new / discovery have frame postconditions"),
    "C05": _p(["generate", "main", "find", "entry", "directive"], COMMON_TRUST,
              "exact verdict of check_references (ok iff files found, not interrupted, tree_missing == 0); the three `missing` filters proved equal to one spec "
              "predicate; reported locations are the entries' line/column (pest's line_col trusted); count printed only on the all-success path"),
    "C06": _p(["generate", "find", "entry", "directive"], COMMON_TRUST + " The grammar clause (the PEG parser recognises the edited statement again) is NOT proved: pest's generated "
              "parser is outside both verifiers; it is covered by a BOUNDED native run (labelled bounded, not counted as proved).",
              "clauses proved: no-op on a tree without missing references (both scan and cached path, lock value unchanged); inserted token reads back: "
              "token_rule(inserted token) == Some(id) and extract_spec == token_rule (relative to the regex-pattern and parse axioms of spec/token_link.rs), "
              "structured `ref = N` parses back to N. Bounded stand-in for the parser: 432 (thorough 648) canonical statements x 2 styles run through the release "
              "binary edit -> check -> edit and re-read by the real library",
              extra=[("roundtrip_bounded", _c06r.run)]),
    "C07": _p(["generate", "main", "context"], COMMON_TRUST + " POSIX rename atomicity; async-std write-cache model; fresh temp name. Operation granularity "
              "(not inside a syscall, not power loss).",
              "atomic_inv is a precondition of every mutating shim (= every boundary between two filesystem operations) and a postcondition of every function; "
              "rename requires flushed complete content; non-atomic writers may not target in-scope files"),
    "C08": _p(["generate", "main"], COMMON_TRUST + " Temporary-file clause: AsyncTempFile::new and the body of Drop::drop are under contract (fresh temp name; drop removes self.path); "
              "that every AsyncTempFile value is dropped is Rust's ownership semantics (not visible to the weaver); a failed unlink is ignored by the code.",
              "generate_code: Ok implies every readable file completely edited; failure flag reduced and consumed; main maps Err to non-zero; temp file created fresh and removed on drop"),
    "C11": _p(["find"], COMMON_TRUST + " The configured-macro clause is PROVED. The comment / string-literal clauses are the grammar's COMMENT and string rules as executed by "
              "pest (outside both verifiers): covered by a BOUNDED native run of decoys (labelled bounded, not counted as proved).",
              "macro_of_interest == exact name or module::name; find emits nothing for other names (result == tree_entries). Bounded stand-in for the grammar clauses: "
              "75 (thorough 78) decoys x 2 styles, two macros configured (log::info, tracing::warn) (commented-out statements incl. last line without newline, LF/CRLF, a bare CR in a comment, split or crosswise module paths, unconfigured look-alike names, no literal message, "
              "macro-like text in string literals) through the release binary: not reported by --check, not modified by an edit",
              extra=[("decoys_bounded", _c11d.run)]),
    "C12": _p(["entry", "find", "directive"], "regex crate and str::parse::<u32> are exercised natively on the enumerated set only (BOUNDED, not proved). " + COMMON_TRUST,
              "bounded-exhaustive conformance of the real extraction (through the real parser) to an oracle that Verus proved equal to the token rule and "
              "compiled; proved: the inserted-token clause (unit entry: C12.inserted; lemma_inserted_token_reads_back) and, relative to two stated axioms on the "
              "dependencies (meaning of the literal regex pattern; str::parse::<u32> on digit strings, the latter proved by Kani in the thorough tier), "
              "extract_reference == token_rule (lemma_extract_is_token_rule); the bounded run is what exercises those axioms on the real regex engine",
              level="exploration", extra=[("conformance", _c12.run)],
              technique="Verus-verified and Verus-compiled oracle (token rule == executable twin; inserted-token lemma) + bounded-exhaustive native conformance "
                        "run of the real code; the bounded part is labelled bounded"),
    "C13": _p(["find", "generate", "entry", "directive"], COMMON_TRUST + " Relative to the pest parse tree (shape facts generated from the grammar) and str::parse::<u32> as a spec function.",
              "find's result is proved equal to tree_entries: first `ref` key with a value decides (parsed value or unusable), else `ref = ` at the first argument "
              "after any target with `, ` / `; `; unusable entries are skipped by all three processors"),
    "C14": _p(["find", "directive"], COMMON_TRUST + " str::lines().rev() / trim / to_lowercase / Regex::captures are uninterpreted spec functions (std and regex-crate semantics assumed); "
              "whether a comment *is* on the nearest earlier line is therefore relative to std's line splitting.",
              "the scan is proved equal to directive_spec (skip the statement's own line, skip blank lines, the first non-blank line decides: no comment => false; "
              "a capture group lower-cased and trimmed equal to the name => true); ignore is evaluated at the macro-name start and removes the entry; "
              "no-kvp at the argument start and selects the message branch (find's result == tree_entries). Bounded stand-in for the assumed std / regex "
              "semantics: 25 directive placements x (ignore in both styles, no-kvp structured) through the release binary, expectation from the property text",
              extra=[("placements_bounded", _c14d.run)]),
    "C15": _p(["context", "main", "generate", "finder"], COMMON_TRUST + " walkdir's traversal and symlink policy; std::path join/parent/extension semantics.",
              "discovered set == in_scope(walk entries, extensions) exactly (regular file, UTF-8, extension text equal); only those paths are rename targets; "
              "relative source_dir joined onto parent(--config); lock path = join(config dir, Breadlog.lock)"),
    "C16": _p(["context", "main", "generate", "finder"], COMMON_TRUST + " serde semantics for the attributes as written (contract generated from them).",
              "defaults proved for the default_* functions and carried through Context::new; use_cache false: no read, no write; unparsable or id-less lock ignored; "
              "config / source-dir errors give Err without changing fs"),
    "C17": _p(["generate", "main", "context", "finder", "find", "directive"], COMMON_TRUST + " Panics or super-linear time inside pest, regex, serde_yaml are not covered.",
              "for every function under contract: no overflow, no out-of-range index/slice, unwrap only on Some/Ok, unreachable!() unreachable (needs the grammar "
              "shape facts), str slices on char boundaries, every loop terminates; unreadable files are skipped and the rest processed"),
    "C18": _p(["generate", "main", "finder"], COMMON_TRUST + " Delivery before the handlers exist; the OS.",
              "both signals registered before either driver is called (call-site obligation); a poll that returned true makes check return Err; an interrupted edit "
              "keeps atomic_inv and writes the lock"),
}


def _fam(pid):
    return lambda tier, seed: _e2e.run_family(pid, tier, seed)


def _err(pid):
    return lambda tier, seed: _e2e.run_errors(pid, tier, seed)


for _k in ("C01", "C03", "C04", "C05", "C06", "C08", "C11", "C12", "C13", "C14", "C15", "C16", "C17"):
    PROPS[_k]["fallback"] = [("e2e_bounded", _fam(_k))]
for _k in ("C04", "C16"):
    PROPS[_k]["fallback"].append(("e2e_errors_bounded", _err(_k)))


def _flt(pid):
    return lambda tier, seed: _e2ef.run_faults(pid, tier, seed)


PROPS["C07"]["fallback"] = [("e2e_bounded", _fam("C07")), ("e2e_faults_bounded", _flt("C07"))]
PROPS["C08"]["fallback"].append(("e2e_faults_bounded", _flt("C08")))
PROPS["C02"]["fallback"] = [("e2e_bounded", _fam("C02")), ("e2e_faults_bounded", _flt("C02")), ("e2e_signals_bounded", lambda tier, seed: _e2es.run_signals("C02", tier, seed))]
PROPS["C18"]["fallback"] = [("e2e_signals_bounded", lambda tier, seed: _e2es.run_signals("C18", tier, seed))]
for _k, _v in PROPS.items():
    _v.setdefault("technique", TECH % ", ".join(_v["units"]))

NOT_APPLICABLE = {
    "C09": "behaviour of compiled user programs (rustc macro expansion + execution of two programs): no contract on Breadlog's functions expresses it",
    "C10": "completeness of recognition is a theorem about the PEG in rust_grammar.pest as executed by pest's generated parser; Verus cannot take that code and "
           "Kani's compiler panics on the regex/pest dependency graph (DESIGN.md §1); proving a hand-written model of the grammar would be a different family",
}
NOTES = ("See DESIGN.md (design + build log). Exit 2 = UNDECIDED (lost anchor / construct outside the verifier's subset), never on the unchanged tree. "
         "Partial claims are stated in each check's level_note.")
