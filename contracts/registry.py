"""Property -> units, level, assumptions.  Kept in step with MANIFEST.json by bin/gen_manifest.py."""

PROPS = {
    "C01": {"units": ["generate"], "level": "proof", "assumptions": []},
    "C02": {"units": ["generate"], "level": "proof", "assumptions": []},
    "C03": {"units": ["generate"], "level": "proof", "assumptions": []},
    "C04": {"units": ["generate"], "level": "proof", "assumptions": []},
    "C05": {"units": ["generate"], "level": "proof", "assumptions": []},
    "C06": {"units": ["generate"], "level": "proof", "assumptions": []},
    "C07": {"units": ["generate"], "level": "proof", "assumptions": []},
    "C08": {"units": ["generate"], "level": "proof", "assumptions": []},
    "C17": {"units": ["generate"], "level": "proof", "assumptions": []},
    "C18": {"units": ["generate"], "level": "proof", "assumptions": []},
}

NOT_APPLICABLE = {
    "C09": "behaviour of compiled user programs (rustc macro expansion + execution of two programs): no contract on Breadlog's functions expresses it",
    "C10": "completeness of recognition is a theorem about the PEG in rust_grammar.pest as executed by pest's generated parser; Verus cannot take that code and Kani's compiler panics on the regex/pest dependency graph (DESIGN.md §1)",
    "C11": "not yet built (planned: configured-macro filter clause only)",
    "C12": "not yet built",
    "C13": "not yet built",
    "C14": "not yet built",
    "C15": "not yet built",
    "C16": "not yet built",
}
NOTES = "See DESIGN.md. Exit 2 = UNDECIDED (lost anchor / construct outside the verifier's subset), never on the unchanged tree."
for _p in ("C04", "C05", "C07", "C08", "C17", "C18"):
    PROPS[_p]["units"] = PROPS[_p]["units"] + ["main"]
for _p in ("C02", "C04", "C07", "C17"):
    PROPS[_p]["units"] = PROPS[_p]["units"] + ["context"]
PROPS["C15"] = {"units": ["context", "main", "generate"], "level": "proof", "assumptions": []}
PROPS["C16"] = {"units": ["context", "main", "generate"], "level": "proof", "assumptions": []}
for _p in ("C04", "C15", "C16", "C17", "C18"):
    PROPS[_p]["units"] = PROPS[_p]["units"] + ["finder"]
for _p in ("C03", "C17"):
    PROPS[_p]["units"] = PROPS[_p]["units"] + ["find"]
PROPS["C11"] = {"units": ["find"], "level": "proof", "assumptions": []}
PROPS["C13"] = {"units": ["find", "generate", "entry"], "level": "proof", "assumptions": []}
PROPS["C14"] = {"units": ["find"], "level": "proof", "assumptions": []}
for _p in ("C05", "C06", "C12"):
    PROPS[_p]["units"] = PROPS[_p]["units"] + ["find"]
for _k in ("C11", "C13", "C14"):
    NOT_APPLICABLE.pop(_k, None)
from . import c12 as _c12
PROPS["C12"] = {"units": ["entry"], "level": "exploration", "assumptions": [
    "regex crate and str::parse::<u32> are exercised natively on the enumerated set only (bounded, not proved)"],
    "extra": [("conformance", _c12.run)],
    "level_text": "bounded-exhaustive conformance of the real extraction (through the real parser) to an oracle that Verus proved equal to the token rule and compiled; "
                  "the inserted-token clause is proved (unit entry: C12.inserted; oracle lemma_inserted_token_reads_back)",
    "technique": "Verus-verified and Verus-compiled oracle (token rule == executable twin; inserted-token lemma) + bounded-exhaustive native conformance run of the real code; bounded part labelled bounded"}
NOT_APPLICABLE.pop("C12", None)
for _k in ("C15", "C16"):
    NOT_APPLICABLE.pop(_k, None)
