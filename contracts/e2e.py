"""BOUNDED end-to-end scenario families (never counted as proved).

Purpose (DESIGN.md B8): a bounded stand-in for functions that a change has moved outside the verifier's reach (the Verus side answers
UNDECIDED), and a search for a concrete failing input when a Verus obligation fails (Verus gives no counterexample).  Generated project
trees are run through the release binary built from the current tree (check, edit, check, edit); what is observed is compared with what
the property text says, using a reference model of the *generated* tree (the generator knows which statements it wrote, which lack a
reference and where), not Breadlog's parser.
"""
import atexit
import os
import random
import re
import shutil
import signal
import subprocess
import threading
import time

REPO = os.environ.get("VERIF_REPO", "/repo")
U32MAX = 4294967295
_BUILD = {}


def _xdev():
    """a writable directory on a filesystem other than /var/tmp's (rename across it fails with EXDEV), or None"""
    try:
        base = os.stat("/var/tmp").st_dev
        for d in ("/dev/shm", "/tmp", "/run"):
            if os.path.isdir(d) and os.access(d, os.W_OK) and os.stat(d).st_dev != base:
                return d
    except OSError:
        pass
    return None


XDEV = _xdev()


_LOCK = threading.Lock()


def build():
    """release build (library + binary) of the current tree; built once per process, scratch removed at exit"""
    with _LOCK:
        if _BUILD:
            return _BUILD
        scratch = "/var/tmp/verif-e2e-%d" % os.getpid()
        shutil.rmtree(scratch, ignore_errors=True)
        os.makedirs(scratch)
        atexit.register(shutil.rmtree, scratch, True)
        subprocess.run(["rsync", "-a", "--exclude", "target", "--exclude", ".git", REPO + "/", scratch + "/repo/"], check=True)
        env = dict(os.environ, CARGO_TARGET_DIR=scratch + "/target", CARGO_NET_OFFLINE="true")
        t0 = time.time()
        b = subprocess.run(["cargo", "build", "--release", "--offline"], cwd=scratch + "/repo", env=env, capture_output=True, text=True)
        _BUILD.update({"scratch": scratch, "ok": b.returncode == 0, "err": b.stderr[-400:], "bin": scratch + "/target/release/breadlog", "target": scratch + "/target",
                       "build_s": round(time.time() - t0, 1)})
        return _BUILD


def report_formats():
    """which of the report lines the oracles parse are still produced by the current source (a reworded message disables the clause that reads it, instead of failing it)"""
    try:
        src = open(REPO + "/src/codegen/generate.rs").read()
    except OSError:
        src = ""
    return {"missing": "Missing reference in file {}, line {}, column {}" in src, "total": "Total missing references (all files): {}" in src,
            "inserted": "Num. inserted reference(s): {}" in src}


# ------------------------------------------------------------------------------------------------------------------------------
# generated trees
# ------------------------------------------------------------------------------------------------------------------------------

class Stmt:
    def __init__(self, kind, marker, ref=None, shape=0):
        self.kind, self.marker, self.ref, self.shape = kind, marker, ref, shape
        self.has_kvs = False
        self.has_target = False

    def render(self, structured):
        m, k, s = self.marker, self.kind, self.shape
        if k == "A":   # recognised, lacks a reference
            forms = [('info!("%s text");', 0, 0), ('log::info!("%s {} text", x);', 0, 0), ('info!(target: "net", "%s text");', 0, 1), ('info!(a = 1; "%s text");', 1, 0),
                     ('info!(target: "net", a = 1, b = "x;y"; "%s {}", x);', 1, 1), ('info!(\n        "%s wrapped"\n    );', 0, 0), ('info!(user, peer:?; "%s text");', 1, 0),
                     ('info!("%s ünï ✓ text");', 0, 0), ('info!(\t"%s tab");', 0, 0),
                     ('let naïve = "héllo wörld"; info!("%s same line");', 0, 0), ('if x > 1 { info!("%s nested"); }', 0, 0),
                     ('info!("%s PAD Connexion à la base de données refusée, veuillez réessayer plus tard ✓ ✓ ✓ ✓ ✓");', 0, 0),
                     ('/* ü */ info!(a = 1; "%s after a comment");', 1, 0),
                     ('info!(\n"%s dedented literal in column 1");', 0, 0), ('info!(target: "net",\n"%s dedented after target");', 0, 1),
                     ('info!("%s PAD' + "é" * 60 + '");', 0, 0), ('info!("%s PAD' + "✓" * 45 + '");', 0, 0), ('info!("%s PAD' + "𝄞" * 30 + '");', 0, 0)]
            f, self.has_kvs, self.has_target = forms[s % len(forms)]
            return (f % m).replace("PAD", "x" * (s % 7))
        if k == "B":   # message token (unstructured style)
            forms = ['info!("[ref: %d] %s text");', 'log::info!("[ref: %d] %s {}", x);', 'info!(target: "net", "[ref: %d] %s text");', 'info!(a = 1; "[ref: %d] %s text");',
                     'info!("[ref: %d]: %s text");', 'info!("[ref: %d]%s text");', 'info!("[ref: %d], %s été");']
            return forms[s % len(forms)] % (self.ref, m)
        if k == "C":   # key-value reference (structured style)
            forms = ['info!(ref = %d; "%s text");', 'info!(a = 1, ref = %d; "%s text");', 'info!(target: "net", ref = %d, b = 2; "%s text");', 'log::info!(ref = %d, a = 1; "%s {}", x);', 'info!(user, ref = %d; "%s text");', 'info!(user, peer:?, ref = %d, b = 2; "%s text");',
                     'info!(target: "net", err:%%, ref = %d; "%s text");']
            return forms[s % len(forms)] % (self.ref, m)
        if k == "D":   # structured: `ref` key with an unusable value
            forms = ['info!(ref = request_id; "%s text");', 'info!(a = 1, ref = other; "%s text");', 'info!(ref = "abc"; "%s text");', 'info!(ref = ids::STARTUP, b = 2; "%s text");']
            return forms[s % len(forms)] % m
        if k == "E":   # decoys
            forms = ['// info!("%s decoy");', 'other!("%s decoy");', 'let s = "info!(\\"%s decoy\\")";', '/* info!("%s decoy"); */', 'infos!("%s decoy");', 'info!(%s_value);', 'log::warn!("%s decoy");', 'tracing::info!("%s decoy");', 'syslog::info!("%s decoy");', 'loginfo!("%s decoy");', 'tracingwarn!("%s decoy");',
                     'info!(target: AUDIT);\n    record(user, "%s decoy");', 'warn!(target: module_path!());\n    other(1, "%s decoy");']
            return forms[s % len(forms)] % m
        if k == "F":   # ignored by directive
            forms = ['// breadlog:ignore\n    info!("%s ignored");', '/* BreadLog:Ignore */\n\n    info!("%s ignored");']
            return forms[s % len(forms)] % m
        raise ValueError(k)


FILLER = ["let v = 1;", 'let s = "plain string";', 'let u = "ünï ✓ 日本";', "\tlet t = 2; // tab", "", "// a comment", "let w = vec![1, 2, 3];", 'let q = "quote \\" inside";']


class Tree:
    """files: relpath -> (list of (Stmt|str filler), crlf, in_scope)"""

    def __init__(self, rng, structured, focus):
        self.structured = structured
        self.files = {}
        self.extra = {}       # out-of-scope files: relpath -> bytes
        self.links = {}       # relpath -> target (absolute or relative)
        self.n = 0
        self.n_big = 0
        big = focus == "C01" and rng.random() < 0.5
        pool = [0, 1, 2, 3, 7, 100, 65535, 70000, 1000000000, 3999999999] + ([U32MAX - 2, U32MAX - 1, U32MAX] if big else [])
        rng.shuffle(pool)
        nfiles = rng.choice([1, 2, 2, 3, 4])
        dirs = ["", "a/", "a/b/", "c.rs/"]
        for fi in range(nfiles):
            items = []
            for _ in range(rng.choice([0, 1, 2, 3, 4, 6])):
                r = rng.random()
                if r < 0.45:
                    kind = "A"
                elif r < 0.7 and pool:
                    kind = "C" if structured else "B"
                elif r < 0.78 and structured:
                    kind = "D"
                elif r < 0.9:
                    kind = "E"
                else:
                    kind = "F"
                ref = None
                if kind in ("B", "C"):
                    # focus C01: in a "big" tree the first existing reference sits at the u32 boundary
                    ref = pool.pop(pool.index(max(pool))) if (big and not self.n_big) else pool.pop()
                    self.n_big += 1
                st = Stmt(kind, "mk%dz" % self.n, ref, rng.randrange(0, 36))
                self.n += 1
                items.append(st)
                for _ in range(rng.choice([0, 0, 1, 2])):
                    items.append(rng.choice(FILLER))
            self.files["%sf%d.rs" % (rng.choice(dirs), fi)] = (items, rng.random() < 0.2)
        if focus in ("C15", "C04", "C03") or rng.random() < 0.3:
            body = 'fn g() {\n    info!("outofscope text");\n}\n'
            for name in ("x.RS", "y.rsx", "z.rs.bak", "noext", "a/deep.txt", "rs", "users", "handlers", "x.jrs", ".rs", "a/.rs"):
                self.extra["src/" + name] = body
            self.extra["outside/o.rs"] = body
            self.extra["README.md"] = body
            self.links["src/link_out.rs"] = "../outside/o.rs"
            self.links["src/linkdir"] = "../outside"
        self.extra["tools/src/decoy.rs"] = 'fn g() {\n    info!("decoy tree text");\n}\n'
        self.extra["ci/src/decoy.rs"] = 'fn g() {\n    info!("decoy tree text");\n}\n'
        for rel in list(self.files)[:2]:
            if rng.random() < 0.4:
                self.extra["src/" + rel + ".tmp"] = 'fn g() {\n    info!("sibling tmp text");\n}\n'
        self.bad = None
        if rng.random() < (0.5 if focus in ("C17", "C05", "C03") else 0.15):
            # an in-scope file that is not UTF-8 (Latin-1 text): must be reported and skipped, byte-identical afterwards, the others processed
            self.bad = "src/%slegacy%d.rs" % (rng.choice(["", "a/", "zz/"]), rng.randrange(3))
            self.extra[self.bad] = rng.choice([b'// Copyright \xa9 caf\xe9\nfn g() {\n    info!("latin1 text");\n}\n',
                                               b'fn g() {\n    info!("truncated sequence at the end");\n}\n// caf\xc3',
                                               b'fn g() {\n    info!("truncated 3-byte sequence at the end");\n}\n// \xe2\x82',
                                               b'\xff\xfe' + 'fn g() { info!("utf-16"); }\n'.encode("utf-16-le")])

    def text(self, rel):
        items, crlf = self.files[rel]
        lines = ["fn f(x: u32) {"]
        for it in items:
            lines.append("    " + (it.render(self.structured) if isinstance(it, Stmt) else it))
        lines.append("}")
        t = "\n".join(lines) + "\n"
        return t.replace("\n", "\r\n") if crlf else t

    def stmts(self, kinds=None):
        for rel, (items, _) in self.files.items():
            for it in items:
                if isinstance(it, Stmt) and (kinds is None or it.kind in kinds):
                    yield rel, it

    def write(self, root, use_cache=None, lock=None, source_dir="./src", extensions=None, structured_key=True, cfg_dir=""):
        os.makedirs(root + "/src", exist_ok=True)
        os.makedirs(root + "/" + cfg_dir, exist_ok=True)
        y = "source_dir: %s\n" % source_dir
        if use_cache is not None:
            y += "use_cache: %s\n" % ("true" if use_cache else "false")
        y += "rust:\n"
        if structured_key or self.structured:
            y += "  structured: %s\n" % ("true" if self.structured else "false")
        if extensions is not None:
            y += "  extensions:\n" + "".join("    - %s\n" % e for e in extensions)
        y += "  log_macros:\n    - module: log\n      name: info\n    - module: tracing\n      name: warn\n"
        with open(root + "/" + cfg_dir + "Breadlog.yaml", "w") as f:
            f.write(y)
        for rel in self.files:
            p = root + "/src/" + rel
            os.makedirs(os.path.dirname(p), exist_ok=True)
            with open(p, "wb") as f:
                f.write(self.text(rel).encode())
        for rel, body in self.extra.items():
            p = root + "/" + rel
            os.makedirs(os.path.dirname(p), exist_ok=True)
            with open(p, "wb") as f:
                f.write(body.encode() if isinstance(body, str) else body)
        for rel, target in self.links.items():
            p = root + "/" + rel
            os.makedirs(os.path.dirname(p), exist_ok=True)
            os.symlink(target, p)
        if lock is not None:
            with open(root + "/" + cfg_dir + "Breadlog.lock", "w") as f:
                f.write(lock if isinstance(lock, str) else "---\nnext_reference_id: %d\n" % lock)


def snapshot(root):
    out = {}
    for d, dn, fn in os.walk(root):
        for n in dn + fn:
            p = os.path.join(d, n)
            rel = os.path.relpath(p, root)
            st = os.lstat(p)
            if os.path.islink(p):
                out[rel] = ("link", os.readlink(p))
            elif os.path.isdir(p):
                out[rel] = ("dir", st.st_mode)
            else:
                with open(p, "rb") as f:
                    out[rel] = ("file", f.read(), st.st_mtime_ns, st.st_mode)
    return out


def run(binp, cfg, check, tmpdir, cwd, timeout=40, pre=None):
    env = dict(os.environ, TMPDIR=tmpdir)
    cmd = (pre or []) + [binp, "-c", cfg] + (["--check"] if check else [])
    t0 = time.time()
    try:
        p = subprocess.run(cmd, cwd=cwd, env=env, capture_output=True, timeout=timeout)
        return p.returncode, (p.stdout + p.stderr).decode("utf-8", "replace"), time.time() - t0
    except subprocess.TimeoutExpired:
        return "timeout", "", time.time() - t0


TOK_MSG = re.compile(r"\[ref: (\d+)\] ")
TOK_KV = re.compile(r"ref = (\d+)[;,] ")


def strip_tokens(orig, new, structured):
    """list of (offset in orig, id, token text) such that removing these tokens from `new` gives `orig`, or None"""
    tokre = re.compile(r"(?=(\[ref: (\d+)\] |ref = (\d+)[;,] ))")
    cands = [(m.start(), m.group(1), int(m.group(2) or m.group(3))) for m in tokre.finditer(new)]
    memo = {}

    def go(ci, j, i):
        # new[j:] vs orig[i:], candidates from index ci on
        key = (ci, j, i)
        if key in memo:
            return memo[key]
        while ci < len(cands) and cands[ci][0] < j:
            ci += 1
        res = None
        if ci == len(cands):
            res = [] if new[j:] == orig[i:] else None
        else:
            pos, tok, idv = cands[ci]
            seg = new[j:pos]
            if orig[i:i + len(seg)] == seg:
                i2 = i + len(seg)
                # choice 1: this candidate is an inserted token
                r1 = go(ci + 1, pos + len(tok), i2)
                if r1 is not None:
                    res = [(i2, idv, tok)] + r1
                else:
                    # choice 2: it was already there
                    res = go(ci + 1, pos, i2) if True else None
        memo[key] = res
        return res
    if len(new) - len(orig) == 0:
        return [] if new == orig else None
    return go(0, 0, 0)


def line_col(text, off):
    """1-based line and column (in characters) of character offset off"""
    line = text.count("\n", 0, off) + 1
    col = off - (text.rfind("\n", 0, off) + 1) + 1
    return line, col


MISSING_RE = re.compile(r"Missing reference in file (.*?), line (\d+), column (\d+)")
TOTAL_RE = re.compile(r"Total missing references \(all files\): (\d+)")
INSERTED_RE = re.compile(r"Num\. inserted reference\(s\): (\d+)")
PANIC_RE = re.compile(r"panicked at|RUST_BACKTRACE|stack overflow|SIGSEGV")


class Obs:
    """violations found in one scenario"""

    def __init__(self, desc):
        self.desc = desc
        self.v = []

    def bad(self, prop, what, **kw):
        self.v.append((prop, what, kw))


def read_ref(new, marker):
    p = new.find(marker)
    if p < 0:
        return None, None, None
    start = new.rfind("!(", 0, p)
    seg = new[start:p] if start >= 0 else new[max(0, p - 80):p]
    m = re.search(r'"\[ref: (\d+)\][^"\]]*$', seg)
    kv = re.findall(r"\bref = (\d+)\s*[;,]", seg)
    return (int(m.group(1)) if m else None), [int(x) for x in kv], seg


class Spec:
    pass


def gen(rng, focus):
    """one generated scenario (tree + configuration); consumes the random stream, runs nothing"""
    sp = Spec()
    sp.structured = rng.random() < 0.5
    sp.tree = Tree(rng, sp.structured, focus)
    sp.use_cache = rng.choice([None, None, True, False])
    existing = [st.ref for _, st in sp.tree.stmts("BC")]
    mx = max(existing) if existing else 0
    sp.lock_mode = rng.choice(["absent", "absent", "consistent", "consistent_far", "corrupt"])
    sp.lock = None
    if sp.lock_mode == "consistent":
        sp.lock = min(U32MAX, mx + 1)
    elif sp.lock_mode == "consistent_far":
        sp.lock = min(U32MAX, mx + 1 + rng.choice([1, 10, 1000]))
    elif sp.lock_mode == "corrupt":
        sp.lock = rng.choice(["", "not yaml: [", "---\nnext_reference_id: banana\n", "---\nsomething_else: 3\n", "# This file is generated by Breadlog\n",
                              "<<<<<<< HEAD\nnext_reference_id: 41\n=======\nnext_reference_id: 57\n>>>>>>> feature/logging\n" + "# stale note kept by a merge tool\n" * 12 + "TAIL-OF-OLD-LOCK\n"])
    sp.structured_key = sp.structured or rng.random() < 0.5
    sp.layout = rng.choice(["", "", "ci/"])                       # directory of the configuration file, relative to the project root
    sp.invoke = rng.choice(["abs", "abs", "rel_tools", "rel_cfgdir"])   # absolute --config from a foreign directory / relative --config
    sp.source_form = rng.choice(["rel_dot", "rel", "abs"])
    # the temporary directory of the edit run: usable / does not exist (creation of the temporary file fails) / on another filesystem (rename fails with EXDEV)
    sp.tmp_mode = rng.choice(["ok"] * 7 + ["missing", "missing", "xdev"]) if focus not in ("C07", "C08") else rng.choice(["ok", "missing", "xdev"])
    return sp


def scenario(binp, root, rng, focus, idx):
    return execute(gen(rng, focus), binp, root, idx)


def execute(sp, binp, root, idx):
    """one generated tree through check, edit, check, edit; returns Obs"""
    structured, tree, use_cache, lock, lock_mode = sp.structured, sp.tree, sp.use_cache, sp.lock, sp.lock_mode
    existing = [st.ref for _, st in tree.stmts("BC")]
    mx = max(existing) if existing else 0
    proj = "%s/s%04d" % (root, idx)
    tmpd = proj + "_tmp"
    cwd = proj + "_cwd"
    os.makedirs(tmpd)
    os.makedirs(cwd)
    up = "../" if sp.layout else ""
    source_dir = {"rel_dot": ("./" if not sp.layout else "") + up + "src", "rel": up + "src", "abs": proj + "/src"}[sp.source_form]
    tree.write(proj, use_cache=use_cache, lock=lock, structured_key=sp.structured_key, cfg_dir=sp.layout, source_dir=source_dir)
    cfg = proj + "/" + sp.layout + "Breadlog.yaml"
    if sp.invoke == "rel_tools":
        cwd = proj + "/tools"
        cfg = os.path.relpath(cfg, cwd)
    elif sp.invoke == "rel_cfgdir":
        cwd = os.path.dirname(cfg)
        cfg = "Breadlog.yaml"
    LOCK = sp.layout + "Breadlog.lock"
    cache_on = use_cache is not False
    missing = [(rel, st) for rel, st in tree.stmts("A")]
    M = len(missing)
    inscope = len(tree.files)
    desc = {"structured": structured, "use_cache": use_cache, "lock": lock_mode, "lock_value": lock, "files": {rel: tree.text(rel) for rel in tree.files},
            "missing": M, "existing_ids": sorted(existing), "config_file": sp.layout + "Breadlog.yaml", "source_dir": source_dir,
            "invoked_as": "breadlog -c %s (cwd: %s)" % (cfg, os.path.relpath(cwd, proj) if cwd.startswith(proj + "/") or cwd == proj else "a foreign directory"),
            "non_utf8_file": tree.bad}
    ob = Obs(desc)
    orig = {rel: tree.text(rel) for rel in tree.files}

    def health(step, rc, out):
        if rc == "timeout":
            ob.bad("C17", "%s did not terminate within the time limit" % step)
            return False
        if rc in (101, 134) or (isinstance(rc, int) and rc < 0) or PANIC_RE.search(out):
            ob.bad("C17", "%s panicked or was killed (exit %s): %s" % (step, rc, out[-200:]))
            return False
        return True

    snap0 = snapshot(proj)
    rc1, out1, _ = run(binp, cfg, True, tmpd, cwd)
    ok = health("--check", rc1, out1)
    snap1 = snapshot(proj)
    if snap1 != snap0:
        diff = [k for k in set(snap0) | set(snap1) if snap0.get(k) != snap1.get(k)]
        ob.bad("C04", "--check changed the project directory: %s" % sorted(diff)[:4])
    if os.listdir(tmpd):
        ob.bad("C04", "--check left files in the temporary directory: %s" % os.listdir(tmpd)[:3])
    if not ok:
        return ob
    reported = [(os.path.basename(a), int(b), int(c)) for a, b, c in MISSING_RE.findall(out1)]
    fmt = report_formats()
    if inscope:
        # with a file that cannot be read as text in the tree the exit status of an otherwise clean run is not pinned down by the properties
        # (reported and skipped, C17; "could not process a file" is a defensible non-zero): only "missing => non-zero" is demanded then
        if ((rc1 != 0) != (M > 0)) and not (tree.bad and M == 0):
            ob.bad("C05,C17" if tree.bad else "C05", "--check exits %s with %d statement(s) lacking a reference" % (rc1, M))
        if fmt["missing"] and len(reported) != M:
            ob.bad("C05", "--check reports %d missing reference(s), the tree has %d" % (len(reported), M))
        tm = TOTAL_RE.search(out1)
        if fmt["total"] and tm and int(tm.group(1)) != M:
            ob.bad("C05", "--check prints a total of %s, the tree has %d" % (tm.group(1), M))
    # ---- edit ----
    start = lock if (cache_on and isinstance(lock, int)) else (mx + 1 if existing else 1)
    exhausted = M > 0 and start + M - 1 > U32MAX
    boundary = M > 0 and start + M - 1 == U32MAX   # the last ID needs a counter value of 2^32: failing here is as acceptable as assigning it
    if sp.tmp_mode != "ok" and not (sp.tmp_mode == "xdev" and not XDEV):
        # ---- faulted edit run: ends the scenario ----
        ftmp = proj + "_tmp/nosuchdir" if sp.tmp_mode == "missing" else "%s/verif-e2e-%d-%d" % (XDEV, os.getpid(), idx)
        if sp.tmp_mode == "xdev":
            os.makedirs(ftmp)
        desc["temporary_directory"] = "does not exist" if sp.tmp_mode == "missing" else "on another filesystem (%s)" % XDEV
        try:
            rcf, outf, _ = run(binp, cfg, False, ftmp, cwd)
            if not health("edit run", rcf, outf):
                return ob
            snapf = snapshot(proj)
            updated = 0
            for rel in tree.files:
                k = "src/" + rel
                nA = len([1 for r2, st in tree.stmts("A") if r2 == rel])
                cur = snapf.get(k)
                if cur is None or cur[0] != "file":
                    ob.bad("C07", "source file %s is gone after an edit run whose temporary directory %s" % (rel, desc["temporary_directory"]))
                    continue
                if cur[1] == snap0[k][1]:
                    continue
                try:
                    toks = strip_tokens(orig[rel], cur[1].decode(), structured)
                except UnicodeDecodeError:
                    toks = None
                if toks is None or len(toks) != nA:
                    ob.bad("C07", "source file %s is neither its original nor its completely updated content after an edit run whose temporary directory %s" % (rel, desc["temporary_directory"]),
                           file_before=orig[rel], file_after=cur[1].decode("utf-8", "replace"))
                else:
                    updated += nA
            for k in set(snap0) | set(snapf):
                if (k.startswith("src/") and k[4:] in tree.files) or k == LOCK:
                    continue
                if (snap0.get(k) or ())[:2] != (snapf.get(k) or ())[:2]:
                    ob.bad("C07,C15,C08" if k.endswith(".tmp") else "C07,C15", "an edit run whose temporary directory %s changed %s" % (desc["temporary_directory"], k))
            imf = INSERTED_RE.search(outf)
            if report_formats()["inserted"] and imf and int(imf.group(1)) != updated:
                ob.bad("C05", "the edit run (temporary directory %s) prints %s inserted reference(s) but %d token(s) reached the sources" % (desc["temporary_directory"], imf.group(1), updated))
            if inscope and rcf == 0 and updated != M:
                ob.bad("C08", "the temporary directory %s: %d of %d references were inserted, but the edit run exits 0" % (desc["temporary_directory"], updated, M))
            left = os.listdir(ftmp) if os.path.isdir(ftmp) else []
            if left:
                ob.bad("C08", "the edit run (exit %s, temporary directory %s) left temporary files behind: %s" % (rcf, desc["temporary_directory"], left[:3]))
        finally:
            if sp.tmp_mode == "xdev":
                shutil.rmtree(ftmp, ignore_errors=True)
        return ob
    rc2, out2, _ = run(binp, cfg, False, tmpd, cwd)
    if not health("edit run", rc2, out2):
        return ob
    snap2 = snapshot(proj)
    if os.listdir(tmpd):
        ob.bad("C08", "the edit run (exit %s) left files in the temporary directory: %s" % (rc2, os.listdir(tmpd)[:3]))
    must_process = bool(inscope) and not exhausted and not boundary
    if must_process and rc2 != 0 and not tree.bad:
        ob.bad("C08,C15,C16,C17", "edit run exits %s on a tree it can fully process: %s" % (rc2, out2[-200:]))
    if exhausted and rc2 == 0:
        ob.bad("C01", "the ID range is exhausted (first free ID %d, %d needed) but the edit run exits 0" % (start, M))
    # out-of-scope files, links, config untouched
    for k in set(snap0) | set(snap2):
        if k.startswith("src/") and k[4:] in tree.files:
            continue
        if k == LOCK:
            continue
        a, b = snap0.get(k), snap2.get(k)
        if a is None or b is None or a[:2] != b[:2]:
            if k == tree.bad:
                ob.bad("C03,C17", "the edit run changed the file %s, which is not valid UTF-8 and must be skipped" % k)
            else:
                ob.bad("C15,C03", "the edit run changed a file that is not in scope: %s" % k)
    new_ids = []
    inserted_total = 0
    locs = []
    for rel in tree.files:
        k = "src/" + rel
        if k not in snap2 or snap2[k][0] != "file":
            ob.bad("C07", "source file %s is gone after the edit run" % rel)
            continue
        try:
            new = snap2[k][1].decode()
        except UnicodeDecodeError:
            ob.bad("C03", "source file %s is not UTF-8 after the edit run" % rel)
            continue
        toks = strip_tokens(orig[rel], new, structured)
        if toks is None:
            ob.bad("C03", "the change to %s is not an insertion of reference tokens" % rel, file_before=orig[rel], file_after=new)
            continue
        inserted_total += len(toks)
        for off, idv, tok in toks:
            new_ids.append(idv)
            locs.append((os.path.basename(rel), off, rel))
            if structured != tok.startswith("ref = "):
                ob.bad("C13" if structured else "C12", "token %r has the wrong shape for %s style in %s" % (tok, "structured" if structured else "unstructured", rel))
        for rel2, st in tree.stmts():
            if rel2 != rel:
                continue
            mref, kvref, seg = read_ref(new, st.marker)
            if st.kind == "A" and (rc2 == 0 or (tree.bad and must_process)):
                # (with an unreadable file in the tree the readable ones must still be processed, whatever the exit status: C17)
                got = kvref if structured else ([mref] if mref is not None else [])
                if len(got) != 1:
                    ob.bad("C08,C15,C17" if not got else "C03,C13", "edit run exits %s but statement %s in %s has %d reference(s)" % (rc2, st.marker, rel, len(got)), file_after=new)
                elif structured:
                    mm = re.match(r'^!\(\s*(target: "[^"]*",\s*)?ref = \d+(; |, )', seg)
                    if not mm:
                        ob.bad("C13", "`ref = N` is not the first key-value after any target in statement %s: %r" % (st.marker, seg))
                    elif (mm.group(2) == ", ") != bool(st.has_kvs):
                        ob.bad("C13", "`ref = N` is terminated by %r in statement %s (other key-values: %s): %r" % (mm.group(2), st.marker, st.has_kvs, seg))
            if st.kind in ("B", "C"):
                got = mref if st.kind == "B" else (kvref[0] if kvref and len(kvref) == 1 else None)
                if got != st.ref:
                    ob.bad("C03,C13" if structured else "C03,C12", "existing reference %d of statement %s became %s" % (st.ref, st.marker, got if got is not None else "%s / %s" % (mref, kvref)))
            if st.kind in ("D", "E", "F"):
                if (mref is not None) or (kvref and st.kind != "D") or (st.kind == "D" and kvref):
                    ob.bad({"D": "C13", "E": "C11", "F": "C14"}[st.kind], "statement %s (%s) received a reference: %r" %
                           (st.marker, {"D": "unusable ref value", "E": "decoy", "F": "ignored by directive"}[st.kind], seg))
    # C01
    if len(set(new_ids)) != len(new_ids):
        ob.bad("C01", "the edit run assigned an ID twice: %s" % sorted(new_ids))
    clash = sorted(set(new_ids) & set(existing))
    if clash:
        ob.bad("C01,C16" if lock_mode == "corrupt" else "C01", "new ID(s) %s equal IDs already present in the tree%s" % (clash, " (the lock file cannot be parsed and must be ignored)" if lock_mode == "corrupt" else ""))
    if any(i < 1 or i > U32MAX for i in new_ids):
        ob.bad("C01", "new ID outside 1..=4294967295: %s" % sorted(new_ids))
    if new_ids and existing and not (cache_on and isinstance(lock, int)) and min(new_ids) <= mx:
        ob.bad("C01", "no lock in use, but new ID %d is not greater than the largest existing ID %d" % (min(new_ids), mx))
    # C05: locations and counts
    im = INSERTED_RE.search(out2)
    if fmt["inserted"] and im and int(im.group(1)) != inserted_total:
        ob.bad("C05", "the edit run prints %s inserted reference(s) but inserted %d token(s)" % (im.group(1), inserted_total))
    if rc2 == 0 and inscope:
        if inserted_total != M:
            ob.bad("C05", "the edit run inserted %d token(s), the tree had %d statement(s) lacking a reference" % (inserted_total, M))
        exp = sorted((b, ) + line_col(orig[rel], off) for b, off, rel in locs)
        if fmt["missing"] and sorted(reported) != exp and len(reported) == len(exp):
            ob.bad("C05", "--check reported locations %s, the edit run inserted at %s" % (sorted(reported)[:4], exp[:4]))
    # lock
    lk = snap2.get(LOCK)
    if not cache_on:
        if snap0.get(LOCK) != lk:
            ob.bad("C16", "use_cache is false but the lock file changed")
    elif rc2 == 0 and inserted_total > 0:
        val = None
        if lk and lk[0] == "file":
            m = re.search(r"next_reference_id: (\d+)", lk[1].decode("utf-8", "replace"))
            val = int(m.group(1)) if m else None
        if val is None:
            ob.bad("C16,C02", "use_cache is %s and references were inserted, but there is no readable lock file next to the configuration" % use_cache)
        elif isinstance(lock, str) and "TAIL-OF-OLD-LOCK" in lock and "TAIL-OF-OLD-LOCK" in lk[1].decode("utf-8", "replace"):
            ob.bad("C16,C02", "the unparsable lock file was overwritten in place: the tail of its old content is still there, so the lock stays unparsable")
        elif new_ids and val <= max(new_ids):
            ob.bad("C02", "lock file holds %d after the run, which is not greater than the ID %d just written" % (val, max(new_ids)))
    # ---- check again, edit again ----
    rc3, out3, _ = run(binp, cfg, True, tmpd, cwd)
    if health("second --check", rc3, out3) and rc2 == 0 and rc3 != 0:
        ob.bad("C06", "--check after an edit run that exited 0 exits %s: %s" % (rc3, out3[-200:]))
    rc4, out4, _ = run(binp, cfg, False, tmpd, cwd)
    if health("second edit run", rc4, out4) and rc2 == 0:
        snap4 = snapshot(proj)
        ch = [k for k in snap2 if k != LOCK and (snap4.get(k) or ())[:2] != snap2[k][:2]]
        if ch:
            ob.bad("C06", "a second edit run changed %s" % sorted(ch)[:3])
        def _lockval(sn):
            e = sn.get(LOCK)
            mm = re.search(r"next_reference_id: (\d+)", e[1].decode("utf-8", "replace")) if e and e[0] == "file" else None
            return int(mm.group(1)) if mm else None
        if cache_on and _lockval(snap4) != _lockval(snap2):
            ob.bad("C06", "a second edit run changed the lock value from %s to %s" % (_lockval(snap2), _lockval(snap4)))
    return ob


def run_family(pid, tier, seed, n_quick=60, n_thorough=400, only=None):
    """bounded family for property pid: returns an `extra` result dict"""
    t0 = time.time()
    res = {"bounded": True, "violations": [], "obligations": 0, "discharged": 0}
    b = build()
    if not b["ok"]:
        res["undecided"] = "cargo build failed: " + b["err"]
        return res
    n = n_thorough if tier == "thorough" else n_quick
    rng = random.Random(1000 + seed)
    root = "%s/fam_%s_%d" % (b["scratch"], pid, int(time.time() * 1000) % 100000)
    os.makedirs(root)
    found = {}
    evals = 0
    samples = []
    stopped = None
    try:
        for i in range(n):
            sp = gen(rng, pid)
            if only is not None and i != only:
                continue
            if len(found) >= 3 or time.time() - t0 > 300:
                stopped = "after %d scenarios: %s" % (evals, "3 distinct violations found" if len(found) >= 3 else "time budget of 300 s used")
                break
            ob = execute(sp, b["bin"], root, i)
            evals += 1
            if len(samples) < 2:
                samples.append({k: (v if k != "files" else {f: t[:400] for f, t in list(v.items())[:2]}) for k, v in ob.desc.items()})
            for prop, what, kw in ob.v:
                if pid not in prop.split(","):
                    continue
                key = re.sub(r"\d+", "N", what)[:60]
                if key in found:
                    continue
                found[key] = {"label": "%s.e2e" % pid, "obligation_id": "%s.e2e @ release binary (bounded scenarios): %s" % (pid, key), "msg": what,
                              "src": None, "sline": None, "site_text": what,
                              "extra": {"failing_input": ob.desc, "what": what, "detail": kw, "family": "scenarios", "pid": pid, "seed": seed, "tier": tier, "index": i}}
            shutil.rmtree("%s/s%04d" % (root, i), ignore_errors=True)
            shutil.rmtree("%s/s%04d_tmp" % (root, i), ignore_errors=True)
            shutil.rmtree("%s/s%04d_cwd" % (root, i), ignore_errors=True)
    finally:
        shutil.rmtree(root, ignore_errors=True)
    res["violations"] = list(found.values())[:5]
    res.update({"evaluations": evals, "distinct_nontrivial": evals, "exhaustive": False,
                "rule": "seeded random project trees (1-4 files in nested directories, 0-6 statements each: lacking a reference in 9 shapes, carrying one with IDs from a pool "
                        "including 0 and the u32 boundary, unusable `ref` values, decoys, ignored statements; filler with multi-byte text, tabs, CRLF; out-of-scope look-alike "
                        "files and symlinks), x style x use_cache (omitted/true/false) x lock (absent/consistent/ahead/corrupt); each run through --check, edit, --check, edit "
                        "from a foreign or relative working directory with a private TMPDIR (usable / missing / on another filesystem); compared with a reference model of the generated tree",
                "samples": samples, "wall_s": round(time.time() - t0, 1)})
    if stopped:
        res["stopped_early"] = stopped
    return res


# ------------------------------------------------------------------------------------------------------------------------------
# error scenarios (C16 errors clause, C04): a run that cannot start changes nothing and exits non-zero
# ------------------------------------------------------------------------------------------------------------------------------

def error_cases():
    src = {"src/a.rs": 'fn f() {\n    info!("needs a reference");\n}\n'}
    good = "source_dir: ./src\nrust:\n  log_macros:\n    - module: log\n      name: info\n"
    return [
        ("the --config file does not exist", dict(src), "missing/Breadlog.yaml", None),
        ("the --config file does not exist (existing directory)", dict(src), "Breadlog.yml", None),
        ("the configuration is not YAML", dict(src, **{"Breadlog.yaml": "source_dir: [unclosed\n"}), "Breadlog.yaml", None),
        ("the configuration lacks source_dir", dict(src, **{"Breadlog.yaml": "rust:\n  log_macros:\n    - module: log\n      name: info\n"}), "Breadlog.yaml", None),
        ("the configuration is empty", dict(src, **{"Breadlog.yaml": ""}), "Breadlog.yaml", None),
        ("source_dir does not exist", {"Breadlog.yaml": good.replace("./src", "./nosuch"), "other/a.rs": src["src/a.rs"]}, "Breadlog.yaml", None),
        ("source_dir is a regular file", {"Breadlog.yaml": good, "src": "not a directory\n"}, "Breadlog.yaml", None),
        ("no in-scope file (other extensions only)", {"Breadlog.yaml": good, "src/a.txt": src["src/a.rs"], "src/b.RS": src["src/a.rs"], "src/users": src["src/a.rs"]}, "Breadlog.yaml", None),
        ("no in-scope file (empty source directory)", {"Breadlog.yaml": good, "src/.keep": ""}, "Breadlog.yaml", None),
        ("no in-scope file for the configured extensions", {"Breadlog.yaml": good.replace("rust:\n", "rust:\n  extensions:\n    - rx\n"), "src/a.rs": src["src/a.rs"]}, "Breadlog.yaml", None),
    ]


def run_errors(pid, tier, seed):
    t0 = time.time()
    res = {"bounded": True, "violations": [], "obligations": 0, "discharged": 0}
    b = build()
    if not b["ok"]:
        res["undecided"] = "cargo build failed: " + b["err"]
        return res
    root = "%s/err_%s_%d" % (b["scratch"], pid, int(time.time() * 1000) % 100000)
    n = 0
    try:
        for ci, (desc, files, cfgrel, _) in enumerate(error_cases()):
            for li, lock in enumerate((None, "---\nnext_reference_id: 7\n", "garbage: [")):
                for check in (True, False):
                    proj = "%s/e%02d_%d_%d" % (root, ci, li, check)
                    os.makedirs(proj + "_tmp")
                    os.makedirs(proj + "_cwd")
                    for rel, body in files.items():
                        p = proj + "/" + rel
                        os.makedirs(os.path.dirname(p), exist_ok=True)
                        with open(p, "w") as f:
                            f.write(body)
                    os.makedirs(proj, exist_ok=True)
                    if lock:
                        with open(proj + "/Breadlog.lock", "w") as f:
                            f.write(lock)
                    s0 = snapshot(proj)
                    rc, out, _ = run(b["bin"], proj + "/" + cfgrel, check, proj + "_tmp", proj + "_cwd")
                    s1 = snapshot(proj)
                    n += 1
                    what = None
                    props = "C16,C04" if check else "C16"
                    if rc == "timeout" or rc in (101, 134) or (isinstance(rc, int) and rc < 0) or PANIC_RE.search(out):
                        what, props = "the run panicked or did not terminate (exit %s)" % rc, "C17"
                    elif rc == 0:
                        what = "the run exits 0"
                    elif s0 != s1:
                        what = "the run changed the project directory: %s" % sorted(k for k in set(s0) | set(s1) if s0.get(k) != s1.get(k))[:3]
                    elif os.listdir(proj + "_tmp") or os.listdir(proj + "_cwd"):
                        what = "the run left files behind in the temporary or working directory"
                    if what and pid in props.split(","):
                        key = "%s: %s" % (desc, re.sub(r"\d+", "N", what)[:50])
                        res["violations"].append({"label": "%s.e2e" % pid, "obligation_id": "%s.e2e @ release binary (error scenarios): %s" % (pid, key),
                                                  "msg": "%s (%s, %s)" % (what, desc, "--check" if check else "edit"), "src": None, "sline": None, "site_text": desc,
                                                  "extra": {"failing_input": {"files": files, "config_argument": cfgrel, "lock": lock, "mode": "--check" if check else "edit"},
                                                            "what": what, "family": "errors", "pid": pid, "seed": seed, "tier": tier, "index": -1}})
    finally:
        shutil.rmtree(root, ignore_errors=True)
    seen = set()
    res["violations"] = [v for v in res["violations"] if not (v["obligation_id"] in seen or seen.add(v["obligation_id"]))][:4]
    res.update({"evaluations": n, "distinct_nontrivial": n, "exhaustive": True,
                "rule": "10 ways a run cannot start (configuration missing / not YAML / incomplete / empty, source directory missing / a file, no in-scope file) x lock absent / valid / corrupt "
                        "x both modes: exit non-zero, project directory byte-identical, nothing left in TMPDIR or the working directory",
                "samples": [], "wall_s": round(time.time() - t0, 1)})
    return res
