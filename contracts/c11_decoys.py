"""C11 — BOUNDED stand-in for the grammar clauses (comments, string literals: pest's COMMENT / string rules, which neither
verifier can take): an enumerated family of decoys is put through the release binary built from the current tree; neither
--check may report them nor an edit run modify them.  The configured-macro clause is PROVED (unit find); this part is labelled
bounded and never counted as proved."""
import os
import shutil
import subprocess
import time

ROOT = os.path.dirname(os.path.dirname(os.path.abspath(__file__)))
REPO = os.environ.get("VERIF_REPO", "/repo")


def decoys(tier):
    body = 'info!("decoy {}", x)'
    d = []
    # comments, at the end of the file with and without a final newline, LF and CRLF
    for nl in ("\n", "\r\n"):
        for end in (nl, ""):
            d += [("line comment", "fn f() {}%s// %s;%s" % (nl, body, end)),
                  ("doc comment", "/// %s;%sfn f() {}%s" % (body, nl, end)),
                  ("inner doc comment", "//! %s;%s" % (body, end)),
                  ("block comment", "fn f() {}%s/* %s; */%s" % (nl, body, end)),
                  ("multi-line block comment", "/*%s   %s;%s*/%sfn f() {}%s" % (nl, body, nl, nl, end)),
                  ("doc block comment", "/** %s; */%sfn f() {}%s" % (body, nl, end)),
                  ("comment after code", "fn f() { let a = 1; // %s;%s}%s" % (body, nl, end)),
                  ("comment directly after a real statement", 'fn f() {%s    info!(ref = 7; "[ref: 7] real");%s    // %s;%s}%s' % (nl, nl, body, nl, end)),
                  ("last line is a comment", 'fn f() {%s    info!(ref = 7; "[ref: 7] real");%s}%s// %s;%s' % (nl, nl, nl, body, end))]
    # macros that are not configured (log::info and tracing::warn are: log::warn and tracing::info are NOT)
    for name in ("other", "my_info", "info_", "infos", "in", "slog::info", "log2::info", "tracing::info", "crate::log::info", "log::infos", "log::warn", "Info", "INFO", "loginfo", "tracingwarn", "log_info", "logwarn"):
        d.append(("unconfigured macro %s" % name, 'fn f() {\n    %s!("decoy");\n}\n' % name))
    # a different module path written non-contiguously (rustc accepts whitespace and comments between path segments)
    for pathtxt in ("metrics :: info", "metrics::  info", "metrics ::info", "crate::metrics::\n        info", "audit::/* v2 */info", "syslog::info", "catalog::info", "applog::info", "xlog::info"):
        d.append(("different module path %r" % pathtxt, 'fn f() {\n    %s!("decoy");\n}\n' % pathtxt))
    # a carriage return inside a line comment does not end the comment (rustc)
    d.append(("line comment containing a bare CR", 'fn f() {}\n// note\r info!("decoy");\nfn g() {}\n'))
    # configured name with a non-literal target and no message, followed by unrelated code with a string literal after a comma
    for tgt in ("AUDIT", "module_path!()", "targets::NET"):
        d.append(("non-literal target, no message, code follows", 'fn f() {\n    info!(target: %s);\n    record(user, "decoy");\n    other!(target: "net", "decoy");\n}\n' % tgt))
    # configured name without a literal message
    for args in ("x", "x, y", "&format!(\"a\")", "MSG", "target: TARGET, x", "concat!(\"a\", \"b\")"):
        d.append(("no literal message", "fn f() {\n    info!(%s);\n}\n" % args))
    # macro-like text inside ordinary string literals with escaped quotes
    for lit in ('"info!(\\"decoy\\")"', '"say \\"info!(\\\\\\"decoy\\\\\\")\\" now"', '"text info!(\\"decoy\\"); more"'):
        d.append(("inside a string literal", "fn f() {\n    let s = %s;\n}\n" % lit))
    if tier == "thorough":
        for pre in ("  ", "\t", "x; "):
            d.append(("comment with leading text", "fn f() {}\n%s// %s;" % (pre, body)))
    return d


def run(tier, seed):
    t0 = time.time()
    res = {"bounded": True, "violations": [], "obligations": 0, "discharged": 0}
    from . import e2e
    bld = e2e.build()
    if not bld["ok"]:
        res["undecided"] = "cargo build failed: " + bld["err"]
        return res
    scratch = "%s/c11_%d" % (bld["scratch"], int(time.time() * 1000) % 100000)
    os.makedirs(scratch)
    try:
        binp = bld["bin"]
        ds = decoys(tier)
        n = 0
        for structured in (False, True):
            proj = scratch + ("/ps" if structured else "/pu")
            os.makedirs(proj + "/src")
            with open(proj + "/Breadlog.yaml", "w") as f:
                f.write("source_dir: ./src\nuse_cache: false\nrust:\n  structured: %s\n  log_macros:\n    - module: log\n      name: info\n    - module: tracing\n      name: warn\n" % ("true" if structured else "false"))
            files = {}
            for i, (kind, txt) in enumerate(ds):
                p = "%s/src/d%03d.rs" % (proj, i)
                with open(p, "wb") as f:
                    f.write(txt.encode())
                files[p] = (kind, txt)
            c = subprocess.run([binp, "-c", proj + "/Breadlog.yaml", "--check"], capture_output=True, text=True)
            reported = set()
            for ln in (c.stdout + c.stderr).split("\n"):
                if "[ref: 5]" in ln or "[ref: 35]" in ln:
                    for p in files:
                        if p.replace(proj + "/", "") in ln or p in ln:
                            reported.add(p)
            e = subprocess.run([binp, "-c", proj + "/Breadlog.yaml"], capture_output=True, text=True)
            for p, (kind, txt) in files.items():
                n += 1
                now = open(p, "rb").read().decode()
                what = None
                if p in reported:
                    what = "--check reports the decoy"
                if now != txt:
                    what = (what + "; " if what else "") + "the edit run modified the decoy"
                if what:
                    res["violations"].append({"label": "C11.decoys", "obligation_id": "C11.decoys @ grammar (bounded run): %s" % kind, "msg": what,
                                              "src": "src/parser/rust_grammar.pest", "sline": None,
                                              "site_text": "%s style, %s: %r" % ("structured" if structured else "unstructured", kind, txt),
                                              "extra": {"failing_input": txt, "structured": structured, "what": what, "kind": kind}})
            if c.returncode != 0 and not reported:
                res["violations"].append({"label": "C11.decoys", "obligation_id": "C11.decoys @ grammar (bounded run): check exit status", "msg": "--check exits %d on a tree of decoys" % c.returncode,
                                          "src": "src/parser/rust_grammar.pest", "sline": None, "site_text": "", "extra": {"failing_input": "(whole decoy tree)", "what": "exit %d" % c.returncode}})
        res.update({"evaluations": n, "distinct_nontrivial": n,
                    "rule": "decoys: commented-out statements (line/doc/block, LF and CRLF, with and without a final newline, after code, after a real statement), "
                            "unconfigured macro names (prefix/suffix/other module/case variants of the configured log::info and tracing::warn, incl. the crosswise log::warn / tracing::info), the configured name without a literal message, "
                            "macro-like text inside string literals with escaped quotes; one decoy per file, both reference styles; every decoy is non-trivial (it contains "
                            "text that looks like a log statement)",
                    "samples": [{"kind": k, "text": t} for k, t in ds[:3]], "exhaustive": True, "decoys": len(ds), "wall_s": round(time.time() - t0, 1)})
        # group identical kinds: at most 6 reported
        res["violations"] = res["violations"][:6]
    finally:
        shutil.rmtree(scratch, ignore_errors=True)
    return res
