"""Unit `procs`: the three reference processors' map/reduce (generate.rs) with the accessors they call."""
from weave.weaver import Unit
from weave import rules
from . import common
from .common import GEN

NEXT_SCOPE = r"impl ReferenceProcessor<u32, \(u32, usize\), \(u32, usize\)>\s+for NextReferenceIdProcessor"
COUNT_SCOPE = r"impl ReferenceProcessor<u32, u32, u32>\s+for CountMissingReferenceIdProcessor"
INS_SCOPE = r"impl ReferenceProcessor<Arc<AtomicU32>, InsertReferencesResult, InsertReferencesResult>\s+for InsertReferencesProcessor"

LOG_SCHEMA = {
    5: ["s", "n", "n"],   # Missing reference in file {}, line {}, column {}
    35: ["s", "n", "n"],  # Unusable reference ...
    6: ["s", "n"],        # Total missing references in {}: {}
    7: ["n"],             # Total missing references (all files): {}
    21: ["n"],            # Num. inserted reference(s): {}
}


def next_id_processor(u):
    u.raw("verus! {\npub struct NextReferenceIdProcessor {}\nimpl NextReferenceIdProcessor {\n")
    f = u.real_fn(GEN, "map", scope=NEXT_SCOPE, owner="NextReferenceIdProcessor", props=("C01", "C05", "C13", "C17"))
    rules.sig(f, ret="res")
    f.ensures.append(("C01.filemax", "res == Some((max_ref(entries@, entries@.len() as int) as u32, n_missing_all(entries@) as usize))"))
    f.ensures.append(("C05.same", "res.is_some() && res.unwrap().1 as int == n_missing_all(entries@)"))
    f.loop_spec(0, [
        "0 <= it.index@ <= entries@.len()", "it.index@ <= entries.len()",
        ("C01.filemax", "max_file_ref as int == max_ref(entries@, it.index@)"),
        ("C05.same,C01.filemax", "num_missing_refs as int == n_missing(entries@, it.index@)"),
        "num_missing_refs <= it.index@",
    ], iter_name="it", kind="for")
    f.at_start(" proof { lemma_n_missing_bounds(entries@, entries@.len() as int); lemma_max_ref_bounds(entries@, entries@.len() as int); }")

    f = u.real_fn(GEN, "reduce", scope=NEXT_SCOPE, owner="NextReferenceIdProcessor", props=("C01", "C17"))
    rules.sig(f, ret="res")
    f.requires.append("sum_missing(map_results@) <= usize::MAX")
    # from the property: the first new ID is 1 on a tree without IDs, else greater than every existing ID;
    # u32::MAX is the one value that may be returned without being greater (it is never handed out, see Insert::map)
    f.ensures.append(("C01.next", "res.is_some() ==> res.unwrap().0 >= 1 && (res.unwrap().0 as int > max_id(map_results@) || res.unwrap().0 == u32::MAX)"))
    f.ensures.append(("C01.next", "res.is_some() ==> (max_id(map_results@) == 0 ==> res.unwrap().0 == 1)"))
    f.ensures.append(("C05.same", "res.is_some() ==> res.unwrap().1 as int == sum_missing(map_results@)"))
    f.ensures.append(("C17.total", "res.is_some()"))
    f.loop_spec(0, [
        "0 <= it.index@ <= map_results@.len()",
        ("C01.next", "ref_id_result as int == max_id(map_results@.take(it.index@))"),
        ("C05.same,C01.next", "missing_refs_result as int == sum_missing(map_results@.take(it.index@))"),
        "sum_missing(map_results@) <= usize::MAX",
    ], iter_name="it", kind="for")
    f.insert_at(f.loop_open_brace(f.loops()[0][2]) + 1, " proof { lemma_sum_missing_mono(map_results@, it.index@ + 1); "
                "assert(map_results@.take(it.index@ + 1).drop_last() == map_results@.take(it.index@)); }")
    _lp = f.loops()[0]
    from weave import lexer as _lx
    _cb = _lx.match_close(f.body, f.loop_open_brace(_lp[2]))
    f.insert_at(_cb + 1, "\n        proof { assert(map_results@.take(map_results@.len() as int) == map_results@); lemma_max_id_bounds(map_results@); }")
    u.raw("}\n}\n")


def count_processor(u):
    u.raw("verus! {\npub struct CountMissingReferenceIdProcessor {}\nimpl CountMissingReferenceIdProcessor {\n")
    f = u.real_fn(GEN, "map", scope=COUNT_SCOPE, owner="CountMissingReferenceIdProcessor", props=("C04", "C05", "C13", "C17"))
    rules.sig(f, ret="res", world=True)
    rules.r1_logs(f, schema=LOG_SCHEMA)
    f.requires.append("entries@.len() <= u32::MAX")
    f.ensures.append(("C05.same", "res.is_some() && res.unwrap() as int == n_missing_all(entries@)"))
    f.ensures.append(("C04.frame", "final(w).fs == old(w).fs && same_but_fs(World { log: final(w).log, ..*old(w) }, *final(w))"))
    # what is reported: one [ref: 5] line per missing entry with its path/line/column, in order, then the file total
    f.ensures.append(("C05.where", "final(w).log == old(w).log + report_lines(path@, entries@, entries@.len() as int)"
                      ".push(Event { tag: 6, strs: seq![path@], nums: seq![n_missing_all(entries@)] })"))
    rules.r4_for_to_while(f, 0, [
        "0 <= __i <= entries@.len()", "entries@.len() <= u32::MAX",
        ("C05.same", "missing_ref_count as int == n_missing(entries@, __i as int)"),
        "missing_ref_count <= __i",
        "w.fs == old(w).fs && same_but_fs(World { log: w.log, ..*old(w) }, *w)",
        ("C05.where", "w.log == old(w).log + report_lines(path@, entries@, __i as int)"),
    ])
    f.at_start(" proof { lemma_n_missing_bounds(entries@, entries@.len() as int); assert(old(w).log + report_lines(path@, entries@, 0) =~= old(w).log); }")
    f.before_stmt("let path_copy = path.to_string();", "proof { lemma_report_step(old(w).log, path@, entries@, __i as int); }\n                ", nth=0)

    f = u.real_fn(GEN, "reduce", scope=COUNT_SCOPE, owner="CountMissingReferenceIdProcessor", props=("C04", "C05", "C17"))
    rules.sig(f, ret="res", world=True)
    rules.r1_logs(f, schema=LOG_SCHEMA)
    f.requires.append("sum_u32(map_results@) <= u32::MAX")
    f.ensures.append(("C05.verdict", "res.is_some() && res.unwrap() as int == sum_u32(map_results@)"))
    f.ensures.append(("C05.total", "final(w).log == old(w).log.push(Event { tag: 7, strs: seq![], nums: seq![sum_u32(map_results@)] })"))
    f.ensures.append(("C04.frame", "final(w).fs == old(w).fs && same_but_fs(World { log: final(w).log, ..*old(w) }, *final(w))"))
    f.loop_spec(0, [
        "0 <= it.index@ <= map_results@.len()",
        ("C05.verdict", "reduce_result as int == sum_u32(map_results@.take(it.index@))"),
        "sum_u32(map_results@) <= u32::MAX",
        "*w == *old(w)",
    ], iter_name="it", kind="for")
    f.insert_at(f.loop_open_brace(f.loops()[0][2]) + 1, " proof { lemma_sum_u32_mono(map_results@, it.index@ + 1); "
                "assert(map_results@.take(it.index@ + 1).drop_last() == map_results@.take(it.index@)); }")
    _lp = f.loops()[0]
    from weave import lexer as _lx
    _cb = _lx.match_close(f.body, f.loop_open_brace(_lp[2]))
    f.insert_at(_cb + 1, "\n        proof { assert(map_results@.take(map_results@.len() as int) == map_results@); }")
    u.raw("}\n}\n")


def insert_processor(u):
    u.real_item(GEN, r"struct AsyncTempFile\b", lambda t: common.wrap(common.pub_fields(common.strip_doc(t))), "R7")
    u.raw("verus! {\n#[derive(Debug)]\npub struct Infallible { pub _p: () }\n#[verifier::external_body]\n"
          "pub fn string_from_str(s: &str) -> (r: Result<String, Infallible>) ensures r.is_ok() && r.unwrap()@ == s@ { unimplemented!() }\n"
          "impl AsyncTempFile {\n")
    # ---- AsyncTempFile::new: the real body over temp_dir / uuid / File::create shims -------------------------------------
    f = u.real_fn(GEN, "new", scope=r"impl AsyncTempFile\b", owner="AsyncTempFile", props=("C04", "C07", "C08", "C17"))
    rules.sig(f, ret="r", world=True)
    rules.r13_reroot(f, {"use std::env::temp_dir;": "use tempshim::temp_dir;", "use uuid::Uuid;": "use tempshim::Uuid;"})
    rules.r5_format(f, kinds={"Uuid::new_v4()": "uuid", "e": "display"}, min_count=1)
    f.replace_all(r"String::from_str\s*\(", "string_from_str(", "R9", regex=True, min_count=1)
    rules.r8_thread(f, [r"async_std::fs::File::create\("])
    f.requires += [("C04.nowrite", "!old(w).check_mode"), ("C07.frame", "atomic_inv(*old(w))")]
    f.ensures += [
        ("C04.frame", "same_but_fs(*old(w), *final(w))"),
        ("C08.tmp", "r.is_err() ==> final(w).fs == old(w).fs"),
        # a fresh temporary file, no project file, created empty
        ("C07.nonatomic,C08.tmp", "r.is_ok() ==> is_temp(r.unwrap().path@) && !old(w).fs.dom().contains(r.unwrap().path@)"),
        ("C07.nonatomic", "r.is_ok() ==> final(w).fs == old(w).fs.insert(r.unwrap().path@, Seq::empty())"),
        ("C07.path", "r.is_ok() ==> r.unwrap().file.path() == r.unwrap().path@ && r.unwrap().file.accepted() == Seq::<u8>::empty()"),
    ]
    f.at_start(" proof { axiom_temp_names(*w); reveal_strlit(\"breadlog-\"); reveal_strlit(\".tmp\");"
               " assert(\"breadlog-\"@ =~= temp_prefix()); assert(\".tmp\"@ =~= temp_suffix()); }")
    # ---- Drop for AsyncTempFile: the body as a method (that every value is dropped is Rust's ownership semantics) ------------
    f = u.real_fn(GEN, "drop", scope=r"impl Drop for AsyncTempFile\b", owner="AsyncTempFile", props=("C04", "C07", "C08", "C17"))
    rules.sig(f, ret=None, world=True)
    rules.r13_reroot(f, {"use std::fs::remove_file;": "use tempshim::remove_file;"})
    rules.r8_thread(f, [r"(?<![\w:])remove_file\("])
    f.requires += [("C04.nowrite", "!old(w).check_mode"), ("C07.frame", "atomic_inv(*old(w))"), "is_temp(old(self).path@)"]
    f.ensures += [
        # the temporary file is removed whenever the environment lets it be removed
        ("C08.tmp", "unlinkable(old(self).path@) ==> final(w).fs == old(w).fs.remove(old(self).path@)"),
        ("C08.tmp", "!unlinkable(old(self).path@) ==> final(w).fs == old(w).fs"),
        ("C04.frame", "same_but_fs(*old(w), *final(w)) && final(self).path == old(self).path"),
    ]
    f = u.real_fn(GEN, "path", scope=r"impl AsyncTempFile\b", owner="AsyncTempFile", props=("C03", "C07", "C17"))
    rules.sig(f, ret="r")
    f.ensures.append(("C07.path", "r@ == self.path@"))
    f = u.real_fn(GEN, "file", scope=r"impl AsyncTempFile\b", owner="AsyncTempFile", props=("C03", "C07", "C17"))
    rules.sig(f, ret="r")
    f.ensures.append(("C07.file", "*r == old(self).file && final(self).file == *final(r) && final(self).path == old(self).path"))
    u.raw("}\n}\n")

    # R3: the filter(..).count() chain becomes a counting-loop helper over the *real* closure condition
    f = u.real_fn(GEN, "map", scope=INS_SCOPE, owner="InsertReferencesProcessor", props=("C01", "C03", "C04", "C05", "C07", "C08", "C13", "C15", "C17"))
    fn_chunk = u.chunks.pop()
    p, cond = rules.r3_filter_count(f, "insert_map_filter_count", nth=0)
    u.raw("""verus! {
pub struct InsertReferencesProcessor {}
// R3 helper generated from the real closure text `|%s| %s` (generate.rs, InsertReferencesProcessor::map)
pub fn insert_map_filter_count(entries: &[parser::LogRefEntry]) -> (r: usize)
    ensures r as int == n_missing_all(entries@) // [C05.same]
{
    let mut n: usize = 0;
    for %s in it: entries.iter()
        invariant 0 <= it.index@ <= entries@.len(), it.index@ <= entries.len(), n as int == n_missing(entries@, it.index@), n <= it.index@,
    {
        if %s { n += 1; }
    }
    n
}
""" % (p, cond, p, cond), "R3 helper")
    rules.sig(f, ret="res", world=True)
    rules.r1_logs(f, schema=LOG_SCHEMA)
    rules.r9_str_len(f, ["file_contents"])
    rules.r13_reroot(f, {"std::io::": "stdshim_io::"})
    rules.r8_thread(f, [r"AsyncTempFile::new\(", r"\.write_all\(", r"async_std::fs::(?:rename|copy|write|remove_file)\(", r"(?<![\w])std::fs::(?:rename|copy|write|remove_file)\(", r"\.flush\(", r"\.sync_all\(", r"\.sync_data\("])
    closures = rules.r9_counter(f)
    for k, (cp, cexpr) in enumerate(closures):
        u.raw("""
// R9 helper: the real closure `|%s| %s` passed to fetch_update computes the checked increment
pub fn counter_update_fn_%d(%s: u32) -> (r: Option<u32>)
    ensures r == counter_update_spec(%s) // [C01.nowrap]
{ %s }
""" % (cp, cexpr, k, cp, cp, cexpr), "R9 helper")
    u.raw("impl InsertReferencesProcessor {\n")
    u.chunks.append(fn_chunk)
    c = "file_contents.spec_bytes()"
    f.requires += [
        "atomic_inv(*old(w))",
        "!old(w).check_mode",
        "old(w).protected.contains(path@)",
        "old(w).fs[path@] == %s" % c,
        "old(w).fs[path@] == old(w).orig[path@]",
        "!old(w).intended.dom().contains(path@)",
        "positions_ok(%s, entries@)" % c,
        "1 <= old(w).counter <= u32::MAX",
        "params.is_some()",
    ]
    f.ensures += [
        ("C08.some", "res.is_some()"),
        ("C07.frame", "atomic_inv(*final(w))"),
        # the file is untouched, or its original with exactly one token per missing entry spliced in
        ("C03.splice", "final(w).fs[path@] == %s || is_token_insertion(%s, entries@, final(w).fs[path@])" % (c, c)),
        # success means edited, with every insertion counted
        ("C08.ok,C03.splice", "!res.unwrap().failure ==> is_token_insertion(%s, entries@, final(w).fs[path@])" % c),
        ("C05.count", "!res.unwrap().failure ==> res.unwrap().num_inserted_references as int == n_missing_all(entries@)"),
        ("C05.count", "res.unwrap().num_inserted_references as int <= n_missing_all(entries@)"),
        ("C03.frame", "forall|p: Seq<char>| p != path@ && !is_temp(p) ==> (#[trigger] final(w).fs.dom().contains(p)) == old(w).fs.dom().contains(p)"),
        ("C03.frame", "forall|p: Seq<char>| p != path@ && !is_temp(p) ==> (#[trigger] final(w).fs[p]) == old(w).fs[p]"),
        ("C03.noop", "n_missing_all(entries@) == 0 ==> final(w).fs == old(w).fs && final(w).counter == old(w).counter"),
        # IDs: consecutive values of the counter, never wrapped, and the counter ends after the last one used
        # content: untouched, or the splice with the consecutive IDs (the IDs themselves are C01.ids below)
        ("C03.splice,C07.complete", "final(w).fs[path@] == %s || final(w).fs[path@] == edited(%s, entries@, consec(old(w).counter, n_missing_all(entries@)))" % (c, c)),
        # IDs: the values this file took from the counter are consecutive from its value on entry
        ("C01.ids", "final(w).issued =~= old(w).issued + Seq::new((final(w).counter - old(w).counter) as nat, |j: int| (old(w).counter + j) as u32)"),
        ("C01.range", "old(w).counter <= final(w).counter <= old(w).counter + n_missing_all(entries@)"),
        ("C01.range", "final(w).fs[path@] != %s ==> final(w).counter == old(w).counter + n_missing_all(entries@)" % c),
        ("C01.nowrap", "final(w).counter <= u32::MAX"),
        ("C04.frame", "final(w).orig == old(w).orig && final(w).protected == old(w).protected && final(w).files == old(w).files && final(w).alloc == old(w).alloc"
         " && final(w).check_mode == old(w).check_mode && final(w).handlers == old(w).handlers && final(w).stop_seen == old(w).stop_seen"),
        ("C07.intended", "forall|p: Seq<char>| p != path@ ==> (#[trigger] final(w).intended.dom().contains(p)) == old(w).intended.dom().contains(p)"),
        ("C07.intended", "forall|p: Seq<char>| p != path@ ==> (#[trigger] final(w).intended[p]) == old(w).intended[p]"),
        ("C07.intended", "final(w).intended.dom().contains(path@) ==> is_token_insertion(%s, entries@, final(w).intended[path@])" % c),
    ]
    f.at_start(" let ghost c = %s; let ghost first = w.counter; let ghost mut ids: Seq<int> = Seq::empty();"
               " proof { lemma_n_missing_bounds(entries@, entries@.len() as int);"
               " if n_missing_all(entries@) == 0 { lemma_edited_noop(c, entries@, ids); assert(is_token_insertion(c, entries@, c)); } }" % c)
    rules.r3_for_filter(f, "it", [
        ("C17.bounds", "0 <= it.index@ <= entries@.len()"), ("C17.bounds", "it.index@ <= entries.len()"),
        ("C03.splice", "c == %s" % c), ("C03.positions,C17.bounds", "positions_ok(c, entries@)"),
        ("C07.frame", "atomic_inv(*w)"), ("C04.nowrite", "!w.check_mode"), ("C15.target", "w.protected.contains(path@)"),
        ("C07.nonatomic", "w.fs.dom().contains(scratch_file.path@)"), ("C07.nonatomic", "is_temp(scratch_file.path@)"),
        ("C07.frame,C03.splice", "w.fs[path@] == c"),
        ("C04.frame", "w.orig == old(w).orig && w.protected == old(w).protected && w.files == old(w).files && w.alloc == old(w).alloc && w.check_mode == old(w).check_mode && w.handlers == old(w).handlers && w.stop_seen == old(w).stop_seen"),
        ("C07.intended", "w.intended == old(w).intended && !old(w).intended.dom().contains(path@)"),
        ("C03.frame", "forall|p: Seq<char>| p != path@ && !is_temp(p) ==> w.fs.dom().contains(p) == old(w).fs.dom().contains(p) && w.fs[p] == old(w).fs[p]"),
        ("C07.nonatomic", "scratch_file.file.path() == scratch_file.path@"),
        ("C05.count", "created_entries as int == n_missing(entries@, it.index@)"),
        ("C17.bounds", "created_entries <= it.index@"),
        ("C03.splice", "unwritten_content_start_pos as int == cursor(entries@, it.index@)"),
        ("C03.splice,C17.bounds", "unwritten_content_start_pos <= c.len()"),
        ("C03.splice", "ids.len() == created_entries"),
        ("C03.splice,C07.complete", "scratch_file.file.accepted() == out(c, entries@, ids, it.index@)"),
        ("C01.ids", "forall|j: int| 0 <= j < ids.len() ==> ids[j] == first + j"),
        ("C01.range", "w.counter == first + created_entries"),
        ("C01.ids", "w.issued =~= old(w).issued + Seq::new(created_entries as nat, |j: int| (first + j) as u32)"),
        ("C01.range", "first >= 1"), ("C01.range", "first == old(w).counter"), ("C05.same", "n_missing_all(entries@) > 0"),
        ("C01.nowrap", "w.counter <= u32::MAX"),
    ], nth=0)
    f.before_stmt("let insert_pos = entry.position().character();", "proof { lemma_n_missing_mono(entries@, it.index@ + 1, entries@.len() as int);\n"
                  "                assert(missing(entries@[it.index@])); // [C03.splice,C05.same,C13.unusable]\n"
                  "                assert(n_missing(entries@, it.index@ + 1) == n_missing(entries@, it.index@) + 1); }\n            ")
    # ghost: remember the ID carried by this token
    f.after_stmt("let reference_id =", " proof { let ghost ids0 = ids; ids = ids.push(reference_id as int);"
                 " lemma_out_ids_prefix(c, entries@, ids0, ids, it.index@); }")
    # the complete new content is declared before the file is moved into place
    n_ren = len(f.find_all("async_std::fs::rename("))
    f.before_stmt("async_std::fs::rename(", nth=n_ren - 1 if n_ren else None, text="proof { lemma_ids_consec(ids, first, n_missing_all(entries@));"
                  " assert(is_token_insertion(c, entries@, edited(c, entries@, ids)));"
                  " declare_intended(w, path@, scratch_file.file.accepted()); }\n        ")
    # ---- reduce -------------------------------------------------------------------------------------
    f = u.real_fn(GEN, "reduce", scope=INS_SCOPE, owner="InsertReferencesProcessor", props=("C05", "C08", "C17"))
    rules.sig(f, ret="res")
    rules.r11_or_assign(f)
    f.requires.append("sum_inserted(map_results@) <= usize::MAX")
    f.ensures += [
        ("C08.fail", "res.is_some() && res.unwrap().failure == any_failure(map_results@)"),
        ("C05.count", "res.is_some() && res.unwrap().num_inserted_references as int == sum_inserted(map_results@)"),
    ]
    f.loop_spec(0, [
        "0 <= it.index@ <= map_results@.len()",
        "sum_inserted(map_results@) <= usize::MAX",
        ("C05.count", "insert_count as int == sum_inserted(map_results@.take(it.index@))"),
        ("C08.fail", "reduce_failure == any_failure(map_results@.take(it.index@))"),
    ], iter_name="it", kind="for")
    f.insert_at(f.loop_open_brace(f.loops()[0][2]) + 1, " proof { lemma_sum_inserted_mono(map_results@, it.index@ + 1); "
                "assert(map_results@.take(it.index@ + 1).drop_last() == map_results@.take(it.index@)); }")
    f.before_stmt("Some(InsertReferencesResult {", "proof { assert(map_results@.take(map_results@.len() as int) == map_results@); }\n        ", nth=-1) if False else None
    _lp = f.loops()[0]
    from weave import lexer as _lx
    _cb = _lx.match_close(f.body, f.loop_open_brace(_lp[2]))
    f.insert_at(_cb + 1, "\n        proof { assert(map_results@.take(map_results@.len() as int) == map_results@); }")
    u.raw("}\n}\n")


def build():
    u = Unit("procs")
    u.include("shims/prelude.rs")
    common.entry_types(u)
    u.include("spec/entries.rs")
    u.include("shims/io.rs")
    u.raw("pub mod parser { pub use super::{LogRefEntry, LogRefKind, CodePosition}; }\n")
    u.include("spec/report.rs")
    common.entry_accessors(u, with_token=True)
    u.real_item(GEN, r"const START_REFERENCE_ID\b", lambda t: common.wrap(t))
    u.real_item(GEN, r"struct InsertReferencesResult\b", lambda t: common.wrap(common.pub_fields(common.strip_doc(t))), "R7")
    u.include("spec/ids.rs")
    next_id_processor(u)
    count_processor(u)
    insert_processor(u)
    u.raw("fn main() {}\n")
    u.assume("the tree has fewer than 2^32 recognised statements per file and in total (u32/usize sums of per-file counts cannot overflow)")
    return u
