"""BOUNDED stop-signal family for C18 (and the stop-request clause of C02), never counted as proved.

SIGINT / SIGTERM are delivered at chosen operation boundaries of a run of the release binary built from the current tree - not by timing:
(a) while the source directory is being listed (the start of source discovery), by strace's syscall-entry injection restricted to that directory
    (`strace -f -P <src> -e inject=getdents64:signal=<SIG>:when=1`);
(b) immediately before the n-th filesystem operation on project or temporary files, from the first operation on a source file on, by the LD_PRELOAD
    shim of the fault family (contracts/native/faultshim.c, one global operation counter);
(c) as (b), and a second time before the next operation on the lock file (two signals).
Afterwards: the process must have exited by itself (not killed by the signal), every source file is its original or its completely updated content,
nothing else changed, with the lock in use it covers every ID written, exit 0 only if every file is updated, a signal during discovery leaves all files
untouched and the run (either mode) exits non-zero; an interrupted --check changes nothing."""
import os
import re
import shutil
import subprocess
import time

from . import e2e

N_FILES = 5


def _project(proj, structured):
    os.makedirs(proj + "/src/sub")
    files = {}
    for i in range(N_FILES):
        rel = ("sub/" if i % 2 else "") + "f%d.rs" % i
        body = ['fn f%d(x: u32) {' % i, '    info!("first %d");' % i, '    let s = "ünï ✓";', '    info!(a = 1; "second %d {}", x);' % i,
                ('    info!(ref = %d; "has one");' if structured else '    info!("[ref: %d] has one");') % (10 + i), "}"]
        files[rel] = "\n".join(body) + "\n"
        with open(proj + "/src/" + rel, "w") as f:
            f.write(files[rel])
    with open(proj + "/Breadlog.yaml", "w") as f:
        f.write("source_dir: %s/src\nrust:\n  structured: %s\n  log_macros:\n    - module: log\n      name: info\n" % (proj, "true" if structured else "false"))
    with open(proj + "/Breadlog.lock", "w") as f:
        f.write("---\nnext_reference_id: 1000\n")
    with open(proj + "/notes.txt", "w") as f:
        f.write("bystander\n")
    return files


def _all_referenced(proj, files, structured):
    """give every statement a reference (for the check-mode clause)"""
    n = 500
    for rel in files:
        t = files[rel]
        while True:
            m = re.search(r'info!\((a = 1; )?"(first|second)', t)
            if not m:
                break
            n += 1
            if structured:
                t = t[:m.start()] + ("info!(ref = %d, a = 1; \"x%s" if m.group(1) else "info!(ref = %d; \"x%s") % (n, m.group(2)) + t[m.end():]
            else:
                t = t[:m.start()] + "info!(%s\"[ref: %d] x%s" % (m.group(1) or "", n, m.group(2)) + t[m.end():]
        files[rel] = t
        with open(proj + "/src/" + rel, "w") as f:
            f.write(t)


def strace_ok():
    if not shutil.which("strace"):
        return False
    try:
        r = subprocess.run(["strace", "-f", "-o", "/dev/null", "-e", "trace=getdents64", "-e", "inject=getdents64:signal=SIGCONT:when=1", "ls", "/"], capture_output=True, timeout=30)
        return r.returncode == 0
    except Exception:
        return False


def run_signals(pid, tier, seed):
    t0 = time.time()
    res = {"bounded": True, "violations": [], "obligations": 0, "discharged": 0}
    b = e2e.build()
    if not b["ok"]:
        res["undecided"] = "cargo build failed: " + b["err"]
        return res
    use_strace = strace_ok()
    root = "%s/sig_%s_%d" % (b["scratch"], pid, int(time.time() * 1000) % 100000)
    os.makedirs(root)
    found = {}
    evals = 0
    n_delivered = 0
    samples = []

    def bad(prop, what, ctx):
        nonlocal found
        if pid not in prop.split(","):
            return
        key = re.sub(r"\d+", "N", what)[:70]
        if key not in found:
            found[key] = {"label": "%s.e2e" % pid, "obligation_id": "%s.e2e @ release binary (signal injection): %s" % (pid, key), "msg": what, "src": None, "sline": None,
                          "site_text": what, "extra": {"failing_input": ctx, "what": what, "family": "signals", "pid": pid, "index": -1, "seed": seed, "tier": tier}}

    try:
        from . import e2e_faults
        so = e2e_faults._shim(b["scratch"])
        styles = (False, True) if tier == "thorough" else (bool(seed % 2),)
        for structured in styles:
            for check in (False, True):
                # reference run under the shim: which operations does the run perform, in which order
                refp = "%s/ref%d%d" % (root, structured, check)
                os.makedirs(refp + "_tmp")
                rfiles = _project(refp, structured)
                if check:
                    _all_referenced(refp, rfiles, structured)
                ops = []
                if so:
                    subprocess.run([b["bin"], "-c", refp + "/Breadlog.yaml"] + (["--check"] if check else []), cwd=root, capture_output=True, timeout=120,
                                   env=dict(os.environ, TMPDIR=refp + "_tmp", LD_PRELOAD=so, FAULT_WATCH="%s/:%s_tmp/" % (refp, refp), FAULT_LOG=refp + "_ops.log"))
                    ops = [o for o in open(refp + "_ops.log").read().split("\n") if o] if os.path.exists(refp + "_ops.log") else []
                first_src = next((i + 1 for i, o in enumerate(ops) if "/src/" in o), None)
                shutil.rmtree(refp, ignore_errors=True)
                shutil.rmtree(refp + "_tmp", ignore_errors=True)
                plans = []
                for sig in ("SIGINT", "SIGTERM"):
                    if use_strace:
                        plans.append(("discovery", None, sig))
                    if first_src:
                        ks = list(range(first_src, len(ops) + 1))
                        if tier != "thorough":
                            ks = ks[::max(1, len(ks) // 8)]
                        for k in ks:
                            plans.append(("op", k, sig))
                            if not check:
                                plans.append(("op+lock", k, sig))
                for mode, k, sig in plans:
                    proj = "%s/p%d" % (root, evals)
                    os.makedirs(proj + "_tmp")
                    files = _project(proj, structured)
                    if check:
                        _all_referenced(proj, files, structured)
                    snap0 = e2e.snapshot(proj)
                    env = dict(os.environ, TMPDIR=proj + "_tmp")
                    if mode == "discovery":
                        cmd = ["strace", "-f", "-o", proj + "_trace.txt", "-P", proj + "/src", "-e", "trace=getdents64", "-e", "inject=getdents64:signal=%s:when=1" % sig]
                    else:
                        cmd = []
                        env.update(LD_PRELOAD=so, FAULT_WATCH="%s/:%s_tmp/" % (proj, proj), FAULT_LOG=proj + "_ops.log", FAULT_AT=str(k), FAULT_KIND=sig)
                        if mode == "op+lock":
                            env["FAULT_SIG2_PATH"] = "Breadlog.lock"
                    cmd += [b["bin"], "-c", proj + "/Breadlog.yaml"] + (["--check"] if check else [])
                    try:
                        p = subprocess.run(cmd, cwd=root, env=env, capture_output=True, timeout=120)
                        rc, out = p.returncode, (p.stdout + p.stderr).decode("utf-8", "replace")
                    except subprocess.TimeoutExpired:
                        rc, out = "timeout", ""
                    evals += 1
                    if mode == "discovery":
                        trace = open(proj + "_trace.txt").read() if os.path.exists(proj + "_trace.txt") else ""
                        delivered = trace.count("--- %s" % sig)
                        killed = ("killed by %s" % sig) in trace
                        where = "while the source directory is being listed (first getdents64)"
                    else:
                        olog = [o for o in open(proj + "_ops.log").read().split("\n") if o] if os.path.exists(proj + "_ops.log") else []
                        hits = [o.replace(proj, "<project>") for o in olog if " !" in o]
                        delivered = len(hits)
                        killed = isinstance(rc, int) and rc < 0
                        where = "immediately before filesystem operation(s) " + "; ".join(hits)
                    ctx = {"signal": sig, "delivered": "%d time(s) %s" % (delivered, where),
                           "mode": "--check" if check else "edit", "style": "structured" if structured else "unstructured", "files": files, "exit": rc, "lock_before": 1000}
                    n_delivered += 1 if delivered else 0
                    if delivered == 0:
                        shutil.rmtree(proj, ignore_errors=True)
                        shutil.rmtree(proj + "_tmp", ignore_errors=True)
                        continue
                    snap1 = e2e.snapshot(proj)
                    if len(samples) < 3:
                        samples.append({"signal": sig, "delivered": ctx["delivered"], "mode": ctx["mode"], "exit": rc})
                    if rc == "timeout":
                        bad("C18,C17", "the run did not terminate after %s" % sig, ctx)
                    elif killed:
                        bad("C18", "the process was killed by %s instead of exiting by itself (%s)" % (sig, ctx["delivered"]), ctx)
                    updated, ids = 0, []
                    for r2, t in files.items():
                        cur = snap1.get("src/" + r2)
                        if cur is None or cur[0] != "file":
                            bad("C18,C07", "source file %s is gone after %s" % (r2, sig), ctx)
                            continue
                        if cur[1] == t.encode():
                            continue
                        try:
                            toks = e2e.strip_tokens(t, cur[1].decode(), structured)
                        except UnicodeDecodeError:
                            toks = None
                        if check:
                            bad("C18,C04", "--check interrupted by %s changed %s" % (sig, r2), ctx)
                        elif toks is None or len(toks) != 2:
                            bad("C18,C07", "after %s source file %s is neither untouched nor completely updated (%s)" % (sig, r2, ctx["delivered"]), ctx)
                        else:
                            updated += 1
                            ids += [i for _, i, _ in toks]
                    for kk in set(snap0) | set(snap1):
                        if kk.startswith("src/") and kk[4:] in files or kk == "Breadlog.lock":
                            continue
                        if (snap0.get(kk) or ())[:2] != (snap1.get(kk) or ())[:2]:
                            bad("C18,C07", "after %s another project file changed: %s" % (sig, kk), ctx)
                    lk = snap1.get("Breadlog.lock")
                    m = re.search(r"next_reference_id: (\d+)", lk[1].decode("utf-8", "replace")) if lk and lk[0] == "file" else None
                    if check:
                        if (snap0.get("Breadlog.lock") or ())[:2] != (lk or ())[:2]:
                            bad("C18,C04", "--check interrupted by %s changed the lock file" % sig, ctx)
                    elif ids and (not m or int(m.group(1)) <= max(ids)):
                        bad("C18,C02", "after %s the lock file holds %s but ID %d was written to the sources (%s)" % (sig, m.group(1) if m else "nothing", max(ids), ctx["delivered"]), ctx)
                    if not check and rc == 0 and updated != len(files):
                        bad("C18,C08", "interrupted by %s with %d of %d files updated, the edit run exits 0" % (sig, updated, len(files)), ctx)
                    if mode == "discovery" and not killed and rc != "timeout":
                        if rc == 0:
                            bad("C18", "%s arrived while the sources were being discovered, the %s run exits 0" % (sig, "--check" if check else "edit"), ctx)
                        if updated:
                            bad("C18", "%s arrived while the sources were being discovered, yet %d file(s) were edited" % (sig, updated), ctx)
                    if os.listdir(proj + "_tmp") and not killed:
                        bad("C18,C08", "a run stopped by %s left temporary files behind" % sig, ctx)
                    shutil.rmtree(proj, ignore_errors=True)
                    shutil.rmtree(proj + "_tmp", ignore_errors=True)
                    for ext in ("_trace.txt", "_ops.log"):
                        if os.path.exists(proj + ext):
                            os.unlink(proj + ext)
    finally:
        shutil.rmtree(root, ignore_errors=True)
    res["violations"] = list(found.values())[:5]
    if not use_strace:
        res["skipped_part"] = "strace syscall injection is not available here: no signal during source discovery"
    res.update({"evaluations": evals, "distinct_nontrivial": n_delivered, "runs_in_which_the_signal_was_delivered": n_delivered, "exhaustive": False,
                "rule": "%d files x {SIGINT, SIGTERM} delivered (a) by strace injection at the first listing of the source directory, (b) by the LD_PRELOAD shim immediately before the "
                        "n-th filesystem operation of the run from the first operation on a source file on (every one in the thorough tier), (c) as (b) and again before the next operation on "
                        "the lock file (two signals); edit and --check (on a fully referenced tree); lock file in use" % N_FILES,
                "samples": samples, "wall_s": round(time.time() - t0, 1)})
    return res
