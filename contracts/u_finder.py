"""Unit `finder`: codegen/finder.rs — CodeFile::new, CodeFinder::new, CodeFinder::find (discovery)."""
import re
from weave.weaver import Unit, LostAnchor
from weave import rules, lexer
from . import common, u_generate
from .common import FIN, CP, CTX

IMPL = r"impl<'ctx> CodeFinder<'ctx>"


def finder_new(u):
    f = u.real_fn(FIN, "new", scope=IMPL, owner="CodeFinder", props=("C04", "C15", "C16", "C17", "C18"))
    rules.sig(f, ret="r", world=True)
    rules.r8_thread(f, [r"result\.find\("])
    f.requires += ["old(w).protected == Set::<Seq<char>>::empty()", "old(w).files == Seq::<Seq<char>>::empty()"]
    f.ensures += [
        ("C04.frame", "final(w).fs == old(w).fs"),
        ("C04.frame", "same_but_fs(World { protected: final(w).protected, files: final(w).files, stop_seen: final(w).stop_seen, log: final(w).log, ..*old(w) }, *final(w))"),
        ("C15.ext", "r.is_some() ==> finder_ok(r.unwrap().code_files@, *final(w)) && tree_small(final(w).files, final(w).fs)"),
        ("C15.ext", "r.is_some() ==> final(w).files == in_scope(walk_entries(context.config.source_dir@), context.config.rust.extensions@, walk_entries(context.config.source_dir@).len() as int)"),
        ("C15.protected", "r.is_some() ==> (forall|p: Seq<char>| #[trigger] final(w).protected.contains(p) ==> old(w).fs.dom().contains(p) && !is_temp(p) && p != lock_path())"),
        ("C18.poll", "r.is_some() ==> final(w).stop_seen == old(w).stop_seen"),
        ("C16.errors", "r.is_none() ==> final(w).protected == old(w).protected && final(w).files == old(w).files"),
        ("C16.errors", "!path_exists(context.config.source_dir@) || !is_directory(context.config.source_dir@) ==> r.is_none()"),
    ]
    return f


def build():
    u = Unit("finder")
    u.include("shims/prelude.rs")
    common.entry_types(u)
    u.include("spec/entries.rs")
    u.include("shims/io.rs")
    u_generate.config_types(u)
    u.include("shims/driver_stubs_core.rs")
    from . import u_find
    _tmpp = Unit("tmpp")
    _fr = u_find.find_references(_tmpp)
    u.raw("verus! {\n")
    u.stub_of(_fr, note="find_references (unused here)", extra_ensures=["r@ == found(code.spec_bytes(), *config)", "r@.len() <= u32::MAX"])
    u.raw("}\n")
    u.real_item(common.GEN, r"struct InsertReferencesResult\b", lambda t: common.wrap(common.pub_fields(common.strip_doc(t))), "R7")
    u.include("spec/ids.rs")
    u.include("spec/report.rs")
    u.include("spec/tree.rs")
    u.include("shims/walk.rs")
    u.raw("verus! {\nimpl CodeFile {\n")
    f = u.real_fn(FIN, "new", scope=r"impl CodeFile\b", owner="CodeFile", props=("C15", "C17"))
    rules.sig(f, ret="r")
    f.ensures.append(("C15.ext", "r.path == path"))
    u.raw("}\nimpl<'ctx> CodeFinder<'ctx> {\n")
    finder_new(u)
    f = u.real_fn(FIN, "find", scope=IMPL, owner="CodeFinder", props=("C04", "C15", "C16", "C17", "C18"))
    rules.sig(f, ret="r", world=True)
    rules.r1_logs(f)
    rules.r8_thread(f, [r"(?<![\w:])metadata\("])
    rules.r9_stop_poll(f, ["self.context.stop_commanded"])
    rules.r9_method_to_fn(f, "contains", "vec_contains_string")
    es = "walk_entries(self.context.config.source_dir@)"
    exts = "self.context.config.rust.extensions@"
    rules.r12_walk(f, [
        "es == %s" % es, "walk_wf(es, *w)", "exts == %s" % exts,
        "__it.rest().len() <= es.len()",
        "__it.rest() == es.subrange(es.len() - __it.rest().len(), es.len() as int)",
        ("C15.ext", "paths_of(self.code_files@) == in_scope(es, exts, es.len() - __it.rest().len())"),
        ("C04.frame", "w.fs == old(w).fs && same_but_fs(World { stop_seen: w.stop_seen, log: w.log, ..*old(w) }, *w)"),
        ("C18.poll", "w.stop_seen == old(w).stop_seen"),
        "self.context == old(self).context",
    ])
    f.requires += ["old(w).protected == Set::<Seq<char>>::empty()", "old(w).files == Seq::<Seq<char>>::empty()"]
    f.ensures += [
        ("C04.frame", "final(w).fs == old(w).fs"),
        ("C04.frame", "same_but_fs(World { protected: final(w).protected, files: final(w).files, stop_seen: final(w).stop_seen, log: final(w).log, ..*old(w) }, *final(w))"),
        ("C15.ext", "r ==> finder_ok(final(self).code_files@, *final(w)) && tree_small(final(w).files, final(w).fs)"),
        ("C15.ext", "r ==> final(w).files == in_scope(%s, %s, %s.len() as int)" % (es.replace("self.", "old(self)."), exts.replace("self.", "old(self)."), es.replace("self.", "old(self).")),),
        ("C15.protected", "r ==> (forall|p: Seq<char>| #[trigger] final(w).protected.contains(p) ==> old(w).fs.dom().contains(p) && !is_temp(p) && p != lock_path())"),
        ("C18.poll", "r ==> final(w).stop_seen == old(w).stop_seen"),
        ("C16.errors", "!r ==> final(w).protected == old(w).protected && final(w).files == old(w).files"),
        ("C16.errors", "!path_exists(old(self).context.config.source_dir@) || !is_directory(old(self).context.config.source_dir@) ==> !r"),
        ("C04.frame", "final(self).context == old(self).context"),
    ]
    f.before_stmt("let source_dir_metadata", "let ghost es = %s; let ghost exts = %s;\n        " % (es, exts))
    # end of find: ghost bookkeeping fixes the in-scope set of the run
    last_true = [h for h in re.finditer(r"\btrue\b", f.mbody)][-1]
    f.insert_at(last_true.start(), """proof {
            lemma_in_scope_distinct(es, exts, es.len() as int);
            lemma_in_scope_members(es, exts, es.len() as int);
            set_discovered(w, paths_of(self.code_files@));
            axiom_tree_small(w.files, w.fs);
            assert forall|p: Seq<char>| #[trigger] w.protected.contains(p) implies old(w).fs.dom().contains(p) && !is_temp(p) && p != lock_path() by {
                let j = choose|j: int| 0 <= j < w.files.len() && w.files[j] == p;
                assert(has_source(es, exts, es.len() as int, in_scope(es, exts, es.len() as int)[j]));
                let i = choose|i: int| 0 <= i < es.len() && (#[trigger] es[i]).path == p && entry_in_scope(es[i], exts);
                assert(es[i].is_file);
            }
        }
        """)
    u.raw("}\n}\n")
    u.raw("fn main() {}\n")
    u.assume("walkdir: yields each entry below the directory once (distinct paths), does not follow symlinks (file_type().is_file() is false for links and directories), regular files it reports exist")
    u.assume("Path::extension / OsStr::to_str: std semantics (DirEntryG.ext is the text after the last `.` of the file name)")
    return u
