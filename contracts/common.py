"""Shared pieces of the units: real type definitions extracted from /repo."""
import re
from weave import rules
from weave.weaver import LostAnchor

CP = "src/parser/code_parser.rs"
GEN = "src/codegen/generate.rs"
CTX = "src/config/context.rs"
RP = "src/parser/rust_parser.rs"
FIN = "src/codegen/finder.rs"
MAIN = "src/main.rs"


def pub_fields(text):
    """R7: make struct fields pub (visibility has no run-time meaning)."""
    out = []
    depth = 0
    for ln in text.split("\n"):
        s = ln.strip()
        if depth == 1 and re.match(r"^[a-z_][a-z0-9_]*\s*:", s) and not s.startswith("pub "):
            ln = ln.replace(s, "pub " + s, 1)
        depth += ln.count("{") - ln.count("}")
        out.append(ln)
    t = "\n".join(out)
    t = re.sub(r"^(\s*)(struct|enum) ", r"\1pub \2 ", t, flags=re.M)
    return t


def strip_doc(text):
    return "\n".join(l for l in text.split("\n") if not l.strip().startswith("///"))


def de_serde(t):
    """drop serde / clap / allow / derive attributes of an extracted struct (they are read by the contract generators)"""
    t = re.sub(r"^\s*#\[(?:serde|clap|allow)\([^\]]*\)\]\s*\n", "", t, flags=re.M)
    t = re.sub(r"#\[derive\([^\]]*\)\]", "", t)
    return wrap(pub_fields(strip_doc(t)))


def wrap(text):
    return "verus! {\n" + text + "\n}\n"


def entry_types(u):
    """LogRefKind, CodePosition, LogRefEntry as defined in the repository (R7, R9 on derives)."""
    def kind_tr(t):
        if "#[derive(Copy, Clone, PartialEq, Debug)]" not in t:
            raise LostAnchor("derive line of LogRefKind changed")
        # R9: ghost derives so that `==` on the enum has its structural meaning in specs
        return wrap(strip_doc(t.replace("#[derive(Copy, Clone, PartialEq, Debug)]",
                                        "#[derive(Copy, Clone, PartialEq, Eq, Structural, Debug)]")))
    u.real_item(CP, r"pub enum LogRefKind\b", kind_tr, "R9 derives")
    u.real_item(CP, r"pub struct CodePosition\b", lambda t: wrap(pub_fields(strip_doc(t))), "R7")

    def entry_tr(t):
        # derived Clone on a non-Copy struct has no Verus spec and is not used by the cones
        t = t.replace("#[derive(Clone)]\n", "")
        return wrap(pub_fields(strip_doc(t)))
    u.real_item(CP, r"pub struct LogRefEntry\b", entry_tr, "R7; derive(Clone) dropped (unused in cones)")
    u.rules_log.append(("R9", "LogRefKind: derive Eq, Structural added (ghost)"))
    u.rules_log.append(("R7", "CodePosition/LogRefEntry fields made pub"))


def entry_accessors(u, props=("C01", "C03", "C05", "C13", "C17"), with_token=True):
    """CodePosition / LogRefEntry accessors from code_parser.rs, under contract."""
    u.raw("verus! {\nimpl CodePosition {\n")
    for nm in ("character", "line", "column"):
        f = u.real_fn(CP, nm, scope=r"impl CodePosition\b", props=props, owner="CodePosition")
        rules.sig(f, ret="r")
        f.ensures.append(("C17.total", "r == self.%s" % nm))
    f = u.real_fn(CP, "new", scope=r"impl CodePosition\b", props=props, owner="CodePosition")
    rules.sig(f, ret="r")
    f.ensures.append(("C17.total", "r.character == character && r.line == line && r.column == column"))
    u.raw("}\nimpl LogRefEntry {\n")
    f = u.real_fn(CP, "new", scope=r"impl LogRefEntry\b", props=props, owner="LogRefEntry")
    rules.sig(f, ret="r")
    f.ensures.append(("C17.total", "r.position == position && r.reference == reference && r._macro_name == _macro_name"
                      " && r.kind == kind && r.insertion_prefix == insertion_prefix && r.insertion_suffix == insertion_suffix"))
    f = u.real_fn(CP, "exists", scope=r"impl LogRefEntry\b", props=props, owner="LogRefEntry")
    rules.sig(f, ret="r")
    f.ensures.append(("C05.exists", "r == self.reference.is_some()"))
    f = u.real_fn(CP, "position", scope=r"impl LogRefEntry\b", props=props, owner="LogRefEntry")
    rules.sig(f, ret="r")
    f.ensures.append(("C17.total", "*r == self.position"))
    f = u.real_fn(CP, "reference", scope=r"impl LogRefEntry\b", props=props, owner="LogRefEntry")
    rules.sig(f, ret="r")
    f.ensures.append(("C01.reference", "r == self.reference"))
    f = u.real_fn(CP, "usable_reference_position", scope=r"impl LogRefEntry\b", props=props, owner="LogRefEntry")
    rules.sig(f, ret="r")
    f.ensures.append(("C13.unusable", "r == usable(*self)"))
    if with_token:
        f = u.real_fn(CP, "insertable_reference_string", scope=r"impl LogRefEntry\b", props=("C03", "C12", "C13", "C17"), owner="LogRefEntry")
        rules.sig(f, ret="r")
        rules.r5_format(f, kinds={"reference_id": "u32"}, min_count=1)
        f.ensures.append(("C03.token", "r@ =~= token_chars(*self, reference_id as int)"))
        f.ensures.append(("C12.inserted", "self.insertion_prefix.is_none() && self.insertion_suffix.is_none() ==>\n"
                          "            r@ =~= seq!['[', 'r', 'e', 'f', ':', ' '] + dec(reference_id as nat) + seq![']', ' ']"))
        # hint: string literals are their character sequences
        f.at_start(' proof { reveal_strlit("[ref: "); reveal_strlit("] "); reveal_strlit(""); '
                   'assert("[ref: "@ =~= seq![\'[\', \'r\', \'e\', \'f\', \':\', \' \']); '
                   'assert("] "@ =~= seq![\']\', \' \']); }')
    u.raw("}\n}\n")
    u.assume("format!(\"{}\", u32) renders the canonical decimal (dec_u32 shim); format! with `{}` placeholders concatenates literal pieces and arguments (fmt_concatN shims, R5)")
