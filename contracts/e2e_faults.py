"""BOUNDED crash- and fault-point family for C07 / C08 (and C02's I/O-failure clause), never counted as proved.

A small project (one file smaller and one larger than the write buffer, one in between) is run through the release binary of the current
tree once per filesystem operation the run performs on project or temporary files (open, write, fsync, rename, unlink, truncate, copy) and per
fault kind: the process is killed immediately before / after the operation, or the operation fails with EIO / ENOSPC / EXDEV / EACCES.
Operations are intercepted by an LD_PRELOAD shim (contracts/native/faultshim.c, compiled on every run) with one global operation counter.
After each run every source file must be byte-for-byte its original or its completely updated content and nothing else in the project may
have changed (C07); a run that was not killed and exits 0 must have updated every file, and no temporary file may be left by a run that ended
by itself unless the failed operation was the unlink (C08); with the lock in use and a fault on a file other than the lock, the lock covers every
ID written (C02)."""
import os
import re
import shutil
import subprocess
import time

from . import e2e

HERE = os.path.dirname(os.path.abspath(__file__))
KINDS = ["kill_before", "kill_after", "EIO", "ENOSPC", "EXDEV", "EACCES"]


def _shim(scratch):
    so = scratch + "/faultshim.so"
    if os.path.exists(so):
        return so
    for cc in ("clang", "gcc", "cc"):
        if shutil.which(cc):
            r = subprocess.run([cc, "-shared", "-fPIC", "-O1", "-w", "-o", so, HERE + "/native/faultshim.c", "-ldl", "-lpthread"], capture_output=True, text=True)
            if r.returncode == 0:
                return so
    return None


def _project(root, structured):
    files = {}
    files["small.rs"] = 'fn a() {\n    info!("small one");\n}\n'
    mid = ["fn b(x: u32) {"]
    for i in range(3):
        mid.append('    info!("mid %d {}", x);' % i)
        mid.append('    let s%d = "ünï ✓";' % i)
    mid.append('    info!("[ref: 5] already there");' if not structured else '    info!(ref = 5; "already there");')
    mid.append("}")
    files["sub/mid.rs"] = "\n".join(mid) + "\n"
    big = ["fn c(x: u32) {", '    info!("big first");']
    for i in range(2400):
        big.append("    let v%d = %d; // padding line to exceed every write buffer" % (i, i))
    big.append('    info!("big last {}", x);')
    big.append("}")
    files["big.rs"] = "\n".join(big) + "\n"
    os.makedirs(root + "/src/sub")
    for rel, t in files.items():
        with open(root + "/src/" + rel, "w") as f:
            f.write(t)
    with open(root + "/Breadlog.yaml", "w") as f:
        f.write("source_dir: ./src\nrust:\n  structured: %s\n  log_macros:\n    - module: log\n      name: info\n" % ("true" if structured else "false"))
    with open(root + "/notes.txt", "w") as f:
        f.write("a bystander file\n")
    return files, {"small.rs": 1, "sub/mid.rs": 3, "big.rs": 2}


def run_faults(pid, tier, seed):
    t0 = time.time()
    res = {"bounded": True, "violations": [], "obligations": 0, "discharged": 0}
    b = e2e.build()
    if not b["ok"]:
        res["undecided"] = "cargo build failed: " + b["err"]
        return res
    so = _shim(b["scratch"])
    if not so:
        res.update({"evaluations": 0, "distinct_nontrivial": 0, "skipped": "no C compiler for the fault-injection shim", "rule": "", "samples": [], "exhaustive": False})
        return res
    root = "%s/faults_%s_%d" % (b["scratch"], pid, int(time.time() * 1000) % 100000)
    os.makedirs(root)
    found = {}
    evals = 0
    ops_total = {}
    xdirs = []
    samples = []

    def bad(prop, what, ctx, **kw):
        if pid not in prop.split(","):
            return
        key = re.sub(r"\d+", "N", what)[:70]
        if key not in found:
            found[key] = {"label": "%s.e2e" % pid, "obligation_id": "%s.e2e @ release binary (fault injection): %s" % (pid, key), "msg": what, "src": None, "sline": None,
                          "site_text": what, "extra": {"failing_input": ctx, "what": what, "detail": kw, "family": "faults", "pid": pid, "index": -1, "seed": seed, "tier": tier}}

    try:
        for structured in ((False, True) if tier == "thorough" else (bool(seed % 2),)):
            for tmp_same_fs in ((True, False) if e2e.XDEV else (True,)):
                tag = "%s%s" % ("s" if structured else "u", "" if tmp_same_fs else "x")
                # reference run with the operation log only
                def fresh(name):
                    proj = "%s/%s" % (root, name)
                    shutil.rmtree(proj, ignore_errors=True)
                    if os.path.islink(proj + "_tmp"):
                        os.unlink(proj + "_tmp")
                    shutil.rmtree(proj + "_tmp", ignore_errors=True)
                    os.makedirs(proj)
                    if tmp_same_fs:
                        os.makedirs(proj + "_tmp")
                    else:   # the temporary directory on another filesystem: the final rename fails with EXDEV by itself
                        real = "%s/verif-faults-%d-%s" % (e2e.XDEV, os.getpid(), name)
                        shutil.rmtree(real, ignore_errors=True)
                        os.makedirs(real)
                        xdirs.append(real)
                        os.symlink(real, proj + "_tmp")
                    files, need = _project(proj, structured)
                    return proj, files, need

                def go(proj, at, kind, check=False):
                    tmpreal = os.path.realpath(proj + "_tmp")
                    env = dict(os.environ, TMPDIR=tmpreal, LD_PRELOAD=so, FAULT_WATCH="%s/:%s/" % (proj, tmpreal), FAULT_LOG=proj + "_ops.log")
                    if at:
                        env.update(FAULT_AT=str(at), FAULT_KIND=kind)
                    if os.path.exists(proj + "_ops.log"):
                        os.unlink(proj + "_ops.log")
                    try:
                        p = subprocess.run([b["bin"], "-c", proj + "/Breadlog.yaml"] + (["--check"] if check else []), cwd=root, env=env, capture_output=True, timeout=120)
                        rc, out = p.returncode, (p.stdout + p.stderr).decode("utf-8", "replace")
                    except subprocess.TimeoutExpired:
                        rc, out = "timeout", ""
                    ops = open(proj + "_ops.log").read().split("\n") if os.path.exists(proj + "_ops.log") else []
                    return rc, out, [o for o in ops if o]

                proj, files, need = fresh("ref_" + tag)
                rc, out, ops = go(proj, 0, None)
                nops = len(ops)
                ops_total[tag] = nops
                if (rc != 0 and tmp_same_fs) or nops == 0:
                    res["undecided"] = "fault family: the reference run exits %s with %d intercepted operations" % (rc, nops)
                    return res
                step = 1 if tier == "thorough" else max(1, nops // 14)
                points = sorted(set(list(range(1, nops + 1, step)) + [nops]))
                for k in points:
                    for kind in KINDS:
                        proj, files, need = fresh("f_%s_%d_%s" % (tag, k, kind))
                        snap0 = e2e.snapshot(proj)
                        rc, out, ops = go(proj, k, kind)
                        evals += 1
                        hit = [o for o in ops if " !" in o]
                        hit_op = hit[0].split(" ", 2)[1].lstrip("!") if hit else None
                        hit_path = hit[0].split(" ", 2)[2] if hit else ""
                        if not hit:
                            shutil.rmtree(proj, ignore_errors=True)
                            shutil.rmtree(proj + "_tmp", ignore_errors=True)
                            continue
                        ctx = {"fault": "%s at filesystem operation %d of %d: %s %s%s" % (kind, k, nops, hit_op, hit_path.replace(proj, "<project>"),
                                                                                         "" if tmp_same_fs else " [temporary directory on another filesystem]"), "style": "structured" if structured else "unstructured",
                               "files": {r: (t if len(t) < 2000 else t[:300] + "... (%d bytes)" % len(t)) for r, t in files.items()}, "exit": rc}
                        snap1 = e2e.snapshot(proj)
                        if len(samples) < 3 and k > 3:
                            samples.append({"fault": ctx["fault"], "exit": rc})
                        killed = kind.startswith("kill")
                        updated, ids = 0, []
                        for rel, t in files.items():
                            cur = snap1.get("src/" + rel)
                            if cur is None or cur[0] != "file":
                                bad("C07", "source file %s is gone (%s)" % (rel, ctx["fault"]), ctx)
                                continue
                            if cur[1] == t.encode():
                                continue
                            try:
                                toks = e2e.strip_tokens(t, cur[1].decode(), structured)
                            except UnicodeDecodeError:
                                toks = None
                            if toks is None or len(toks) != need[rel]:
                                bad("C07", "source file %s is neither its original nor its completely updated content: %d bytes, original %d (%s)" % (rel, len(cur[1]), len(t.encode()), ctx["fault"]), ctx)
                            else:
                                updated += 1
                                ids += [i for _, i, _ in toks]
                        for kk in set(snap0) | set(snap1):
                            if kk.startswith("src/") and kk[4:] in files or kk == "Breadlog.lock":
                                continue
                            if (snap0.get(kk) or ())[:2] != (snap1.get(kk) or ())[:2]:
                                bad("C07,C08" if kk not in snap0 else "C07", "another project file %s: %s (%s)" % ("appeared" if kk not in snap0 else "changed", kk, ctx["fault"]), ctx)
                        if rc == "timeout":
                            bad("C17", "the run did not terminate (%s)" % ctx["fault"], ctx)
                        # a source file that cannot be READ is reported and skipped (C17); C08 is about files whose new content could not be created, written or moved
                        unreadable = hit_op == "open-read"
                        if not killed and rc != "timeout" and not unreadable:
                            if rc == 0 and updated != len(files):
                                bad("C08", "%d of %d files were updated but the edit run exits 0 (%s)" % (updated, len(files), ctx["fault"]), ctx)
                            left = os.listdir(os.path.realpath(proj + "_tmp"))
                            if left and hit_op != "unlink":
                                bad("C08", "the run ended by itself (exit %s) and left temporary files behind: %s (%s)" % (rc, left[:2], ctx["fault"]), ctx)
                            if rc == 0:
                                rc2, out2, _ = go(proj, 0, None, check=True)
                                if rc2 != 0:
                                    bad("C08", "the edit run exits 0 but a following --check exits %s (%s)" % (rc2, ctx["fault"]), ctx)
                            if "Breadlog.lock" not in hit_path and ids:
                                lk = snap1.get("Breadlog.lock")
                                m = re.search(r"next_reference_id: (\d+)", lk[1].decode("utf-8", "replace")) if lk and lk[0] == "file" else None
                                if not m or int(m.group(1)) <= max(ids):
                                    bad("C02", "after a failed operation on a file other than the lock, the lock holds %s but ID %d was written (%s)" % (m.group(1) if m else "nothing", max(ids), ctx["fault"]), ctx)
                        shutil.rmtree(os.path.realpath(proj + "_tmp"), ignore_errors=True)
                        shutil.rmtree(proj, ignore_errors=True)
                        if os.path.islink(proj + "_tmp"):
                            os.unlink(proj + "_tmp")
    finally:
        shutil.rmtree(root, ignore_errors=True)
        for d in xdirs:
            shutil.rmtree(d, ignore_errors=True)
    res["violations"] = list(found.values())[:5]
    res.update({"evaluations": evals, "distinct_nontrivial": evals, "exhaustive": tier == "thorough",
                "rule": "3 source files (47 B, ~300 B, ~150 KB) x every %sintercepted filesystem operation of an edit run (%s operations) x {killed before, killed after, EIO, ENOSPC, EXDEV, EACCES}" %
                        ("" if tier == "thorough" else "n-th (stride chosen to give about 14 points) ", ops_total),
                "samples": samples, "wall_s": round(time.time() - t0, 1)})
    return res
