"""Extractor + weaver.

A *unit* is one generated Verus file.  It is assembled from
  - raw chunks (shims, spec functions, lemmas) kept under /verif/shims and /verif/spec
  - real functions / items extracted from /repo's working tree on every run, with
    contracts woven in and the logged rewrite rules applied.

Every edit to extracted text is recorded as (original span, replacement, rule).
Edits never overlap, so erasing them gives back the original text by
construction; `Woven.erasure_ok()` re-checks that on every run.
"""
import os
import re
import json
from . import lexer

REPO = os.environ.get("VERIF_REPO", "/repo")


LABEL_RE = re.compile(r"//\s*\[((?:C\d\d\.[a-z0-9_\-]+)(?:,C\d\d\.[a-z0-9_\-]+)*)\]")


class LostAnchor(Exception):
    """The real code no longer has the shape a contract is keyed on: UNDECIDED, never a violation."""
    pass


# ----------------------------------------------------------------------------
# extraction
# ----------------------------------------------------------------------------

_src_cache = {}


def read_src(rel):
    p = os.path.join(REPO, rel)
    if p not in _src_cache:
        with open(p, encoding="utf-8") as f:
            _src_cache[p] = f.read()
    return _src_cache[p]


def non_test_region(text):
    """(start, end) of the file with `#[cfg(test)] mod tests {..}` / trailing `mod tests` removed."""
    m = lexer.mask(text)
    mm = re.search(r"^(#\[cfg\(test\)\]\s*)?mod tests\s*\{", m, re.M)
    if mm:
        return 0, mm.start()
    return 0, len(text)


def find_scope(text, scope_re, start=0, end=None):
    """Find `<scope_re> {` at any depth within [start,end) on masked text; return (open_brace, close_brace)."""
    m = lexer.mask(text)
    end = len(text) if end is None else end
    hits = [h for h in re.finditer(scope_re, m[:end]) if h.start() >= start]
    if len(hits) != 1:
        raise LostAnchor("scope /%s/ matched %d times" % (scope_re, len(hits)))
    h = hits[0]
    ob = m.find("{", h.end() - 1 if m[h.end() - 1] == "{" else h.end())
    if ob < 0:
        raise LostAnchor("scope /%s/ has no body" % scope_re)
    cb = lexer.match_close(text, ob)
    return ob, cb


FN_RE = r"(?:pub(?:\([a-z]+\))?\s+)?(?:const\s+)?(?:async\s+)?fn\s+%s\b"


class Extracted:
    def __init__(self, rel, text, start, header_end, body_open, body_close):
        self.rel = rel
        self.file_text = text
        self.start = start  # index of first char of header (pub/async/fn)
        self.header = text[start:body_open]
        self.body = text[body_open:body_close + 1]  # including braces
        self.body_open = body_open
        self.line = lexer.line_of(text, start)
        self.end_line = lexer.line_of(text, body_close)


def extract_fn(rel, name, scope=None):
    text = read_src(rel)
    lo, hi = non_test_region(text)
    if scope:
        if isinstance(scope, str):
            scope = [scope]
        for sc in scope:
            ob, cb = find_scope(text, sc, lo, hi)
            lo, hi = ob + 1, cb
    m = lexer.mask(text)
    hits = []
    for h in re.finditer(FN_RE % re.escape(name), m[:hi]):
        if h.start() < lo:
            continue
        # must be at depth 0 relative to region: count braces between lo and h.start()
        seg = m[lo:h.start()]
        if seg.count("{") - seg.count("}") != 0:
            continue
        hits.append(h)
    if len(hits) != 1:
        raise LostAnchor("fn %s in %s (scope %s): %d matches" % (name, rel, scope, len(hits)))
    h = hits[0]
    # body open: first `{` after the header that is at paren depth 0 and not inside generics/where
    i = h.end()
    depth = 0
    ob = None
    while i < hi:
        ch = m[i]
        if ch in "([":
            depth += 1
        elif ch in ")]":
            depth -= 1
        elif ch == "{" and depth == 0:
            ob = i
            break
        elif ch == ";" and depth == 0:
            raise LostAnchor("fn %s in %s has no body" % (name, rel))
        i += 1
    if ob is None:
        raise LostAnchor("fn %s in %s: body not found" % (name, rel))
    cb = lexer.match_close(text, ob)
    return Extracted(rel, text, h.start(), ob, ob, cb)


def extract_item(rel, item_re):
    """Extract a struct/enum/const item with its attributes and doc comments stripped of nothing.
    item_re matches the start (e.g. r'pub struct Config\\b'); returns text through matching `}` or `;`."""
    text = read_src(rel)
    lo, hi = non_test_region(text)
    m = lexer.mask(text)
    hits = [h for h in re.finditer(item_re, m[:hi]) if h.start() >= lo]
    if len(hits) != 1:
        raise LostAnchor("item /%s/ in %s: %d matches" % (item_re, rel, len(hits)))
    h = hits[0]
    i = h.end()
    while i < hi and m[i] not in "{;":
        i += 1
    if m[i] == ";":
        end = i + 1
    else:
        end = lexer.match_close(text, i) + 1
    # attributes immediately above
    start = h.start()
    while True:
        j = start
        k = j - 1
        while k >= 0 and text[k] in " \t\r\n":
            k -= 1
        # previous line is an attribute?
        ls = text.rfind("\n", 0, k + 1) + 1
        line = text[ls:k + 1].strip()
        if line.startswith("#[") and line.endswith("]"):
            start = ls + (len(text[ls:k + 1]) - len(text[ls:k + 1].lstrip()))
            continue
        break
    return text[start:end], lexer.line_of(text, start), text[h.start():end]


# ----------------------------------------------------------------------------
# weaving
# ----------------------------------------------------------------------------

class Edit:
    __slots__ = ("s", "e", "new", "rule", "note", "seq")

    def __init__(self, s, e, new, rule, note="", seq=0):
        self.s, self.e, self.new, self.rule, self.note, self.seq = s, e, new, rule, note, seq


def inv_text(invariants, decreases=None, ensures=None, except_break=None):
    """invariants: list of "text" or ("LABELS", "text"); labels become `// [LABELS]` markers the engine reads back."""
    txt = "\n"
    if except_break:
        txt += "    invariant_except_break\n"
        for x in except_break:
            if isinstance(x, tuple):
                txt += "        %s, // [%s]\n" % (x[1], x[0])
            else:
                txt += "        %s,\n" % x
    txt += "    invariant\n"
    for x in invariants:
        if isinstance(x, tuple):
            txt += "        %s, // [%s]\n" % (x[1], x[0])
        else:
            txt += "        %s,\n" % x
    if ensures:
        txt += "    ensures\n"
        for x in ensures:
            if isinstance(x, tuple):
                txt += "        %s, // [%s]\n" % (x[1], x[0])
            else:
                txt += "        %s,\n" % x
    if decreases:
        txt += "    decreases %s\n" % decreases
    return txt


class Woven:
    """A real function being woven.  All positions are offsets into self.body
    (the original body text including its braces)."""

    def __init__(self, ex, unit):
        self.ex = ex
        self.unit = unit
        self.body = ex.body
        self.mbody = lexer.mask(ex.body)
        self.edits = []
        self.header_new = None
        self.requires = []
        self.ensures = []   # (label, text)
        self.decreases = None
        self.props = set()  # properties whose cone this function belongs to
        self.emit_name = None
        self.applied = []   # log of (rule, note)
        self._seq = 0
        self.attrs = []

    # -- low-level --------------------------------------------------------
    def edit(self, s, e, new, rule, note=""):
        for ed in self.edits:
            if not (e <= ed.s or s >= ed.e) and not (s == e and (s == ed.s or s == ed.e)) and not (ed.s == ed.e and (ed.s == s or ed.s == e)):
                raise LostAnchor("overlapping weave edits in %s (%s vs %s)" % (self.qual(), rule, ed.rule))
        self._seq += 1
        self.edits.append(Edit(s, e, new, rule, note, self._seq))
        self.applied.append((rule, note))

    def qual(self):
        own = getattr(self, "owner", None)
        return "%s::%s%s" % (self.ex.rel, (own + "::") if own else "", self.emit_name or "?")

    def find_all(self, pat, regex=False):
        if regex:
            return [(h.start(), h.end(), h) for h in re.finditer(pat, self.mbody)]
        out = []
        # literal patterns are searched on the raw text but must start in code (not in a comment/string)
        i = self.body.find(pat)
        while i >= 0:
            if self.mbody[i] == self.body[i] or pat[0] in ' "':
                out.append((i, i + len(pat), None))
            i = self.body.find(pat, i + 1)
        return out

    def find_one(self, pat, nth=None, regex=False):
        hits = self.find_all(pat, regex)
        if nth is None:
            if len(hits) != 1:
                raise LostAnchor("anchor %r in %s: %d matches (want 1)" % (pat, self.qual(), len(hits)))
            return hits[0]
        if nth >= len(hits):
            raise LostAnchor("anchor %r #%d in %s: only %d matches" % (pat, nth, self.qual(), len(hits)))
        return hits[nth]

    # -- ghost insertions ------------------------------------------------------
    def insert_at(self, pos, text, rule="G", note=""):
        self.edit(pos, pos, text, rule, note)

    def before(self, pat, text, nth=None, regex=False, rule="G"):
        s, e, _ = self.find_one(pat, nth, regex)
        self.insert_at(s, text, rule, "before %r" % pat)

    def before_stmt(self, pat, text, nth=None, regex=False, rule="G"):
        s, e, _ = self.find_one(pat, nth, regex)
        st = lexer.stmt_start(self.body, s, 1)
        self.insert_at(st, text, rule, "before stmt of %r" % pat)

    def after_stmt(self, pat, text, nth=None, regex=False, rule="G"):
        s, e, _ = self.find_one(pat, nth, regex)
        end = lexer.stmt_end(self.body, s)
        self.insert_at(end, text, rule, "after stmt of %r" % pat)

    def after_stmt_all(self, pat, text_fn, regex=False, rule="G"):
        """apply to every occurrence (zero or more): text_fn(match_index, match) -> text"""
        for k, (s, e, h) in enumerate(self.find_all(pat, regex)):
            end = lexer.stmt_end(self.body, s)
            self.insert_at(end, text_fn(k, h), rule, "after stmt of %r #%d" % (pat, k))

    def at_start(self, text, rule="G"):
        self.insert_at(1, text, rule, "fn start")

    def at_end(self, text, rule="G"):
        self.insert_at(len(self.body) - 1, text, rule, "fn end")

    def loops(self):
        """offsets of `for` / `while` / `loop` keywords in the body, in order"""
        out = []
        for kind, s, e in lexer.code_tokens(self.body):
            if kind == "ident" and self.body[s:e] in ("for", "while", "loop"):
                # `for` in `impl X for Y` / HRTB cannot occur inside a fn body we handle
                out.append((self.body[s:e], s, e))
        return out

    def loop_open_brace(self, kw_end):
        """index of the `{` opening the loop body for the loop keyword ending at kw_end"""
        i = kw_end
        depth = 0
        m = self.mbody
        while i < len(m):
            ch = m[i]
            if ch in "([":
                depth += 1
            elif ch in ")]":
                depth -= 1
            elif ch == "{" and depth == 0:
                # closure bodies `|e| { ... }` inside the header do not occur in handled code
                return i
            i += 1
        raise LostAnchor("loop body not found in %s" % self.qual())

    def loop_spec(self, nth, invariants, decreases=None, iter_name=None, kind=None):
        """Weave invariants (and decreases) into the nth loop. For `for x in E`, iter_name gives the
        ghost iterator name: `for x in it: E`."""
        ls = self.loops()
        if nth >= len(ls):
            raise LostAnchor("loop #%d in %s: only %d loops" % (nth, self.qual(), len(ls)))
        kw, s, e = ls[nth]
        if kind and kw != kind:
            raise LostAnchor("loop #%d in %s is `%s`, contract expects `%s`" % (nth, self.qual(), kw, kind))
        ob = self.loop_open_brace(e)
        if kw == "for" and iter_name:
            mm = re.compile(r"\s+(\S.*?)\s+in\s+", re.S).match(self.mbody, e)
            if not mm:
                raise LostAnchor("for header shape in %s" % self.qual())
            self.insert_at(mm.end(), "%s: " % iter_name, "G", "ghost iterator name")
        txt = inv_text(invariants, decreases)
        self.insert_at(ob, txt, "G", "loop #%d spec" % nth)
        return ob

    # -- generic replace -------------------------------------------------------
    def replace(self, s, e, new, rule, note=""):
        self.edit(s, e, new, rule, note)

    def replace_pat(self, pat, new, rule, nth=None, regex=False):
        s, e, h = self.find_one(pat, nth, regex)
        if regex and h is not None:
            new = h.expand(new)
        self.edit(s, e, new, rule, "replace %r" % pat)

    def replace_all(self, pat, new, rule, regex=False, min_count=0):
        hits = self.find_all(pat, regex)
        if len(hits) < min_count:
            raise LostAnchor("pattern %r in %s: %d matches (< %d)" % (pat, self.qual(), len(hits), min_count))
        for s, e, h in hits:
            self.edit(s, e, h.expand(new) if (regex and h is not None) else new, rule, "replace %r" % pat)
        return len(hits)

    # -- render ------------------------------------------------------------------
    def render_body(self):
        """Return list of (text, orig_offset_or_None) pieces."""
        eds = sorted(self.edits, key=lambda d: (d.s, d.e != d.s, d.seq))
        out = []
        pos = 0
        for ed in eds:
            if ed.s < pos:
                raise LostAnchor("overlapping weave edits in %s" % self.qual())
            if ed.s > pos:
                out.append((self.body[pos:ed.s], pos))
            if ed.new:
                out.append((ed.new, None))
            pos = max(pos, ed.e)
        out.append((self.body[pos:], pos))
        return out

    def erasure_ok(self):
        """Undo every edit on the rendered text and compare with the original body."""
        pieces = self.render_body()
        # originals kept + replaced spans restored from self.body
        kept = "".join(t for t, o in pieces if o is not None)
        removed = sorted([(ed.s, ed.e) for ed in self.edits if ed.e > ed.s])
        rebuilt = []
        pos = 0
        ki = 0
        for s, e in removed:
            n = s - pos
            rebuilt.append(kept[ki:ki + n])
            ki += n
            rebuilt.append(self.body[s:e])
            pos = e
        rebuilt.append(kept[ki:])
        return "".join(rebuilt) == self.body


class Unit:
    def __init__(self, name):
        self.name = name
        self.chunks = []  # ("raw", text, origin) | ("fn", Woven)
        self.fns = []
        self.trusted = []  # human-readable assumption strings
        self.rules_log = []
        self.raw_files = []
        self.stubs = []

    def raw(self, text, origin="inline"):
        self.chunks.append(("raw", text, origin))

    def include(self, rel):
        p = os.path.join(os.path.dirname(os.path.dirname(os.path.abspath(__file__))), rel)
        with open(p) as f:
            self.chunks.append(("raw", f.read(), rel))
        self.raw_files.append(rel)

    def real_fn(self, rel, name, scope=None, emit_name=None, props=(), owner=None):
        ex = extract_fn(rel, name, scope)
        w = Woven(ex, self)
        w.emit_name = emit_name or name
        w.owner = owner
        w.props = set(props)
        self.fns.append(w)
        self.chunks.append(("fn", w))
        return w

    def stub_of(self, w, extra_requires=(), note="", extra_ensures=()):
        """Emit another unit's real function as a bodiless stub carrying exactly its woven contract
        (the caller is checked against the callee's contract, not its body)."""
        self.chunks.append(("stub", w, list(extra_requires), list(extra_ensures)))
        self.stubs.append((w.qual(), note))

    def real_item(self, rel, item_re, transform=None, note=""):
        text, line, _ = extract_item(rel, item_re)
        t2 = transform(text) if transform else text
        self.chunks.append(("item", t2, rel, line, text != t2, note))
        return text

    def assume(self, s):
        if s not in self.trusted:
            self.trusted.append(s)

    def render(self, canary=False, path_canary=False):
        """Return (text, linemap) where linemap[i] (1-based line) = dict(kind=..., ...).
        canary=True: every real function is followed by a copy `<name>__canary` whose contract additionally
        ensures false; callers keep calling the original, so each copy must fail on its own."""
        lines = []
        lmap = []
        chunks = []
        for ch in self.chunks:
            chunks.append(ch)
            if canary and ch[0] == "fn":
                chunks.append(("fn_canary", ch[1]))

        def emit(text, info):
            for ln in text.split("\n"):
                lines.append(ln)
                lmap.append(dict(info))

        for ch in chunks:
            if ch[0] == "raw":
                t = ch[1]
                if t.endswith("\n"):
                    t = t[:-1]
                # label markers inside raw chunks: `// [LABEL]` at end of a line
                for k, ln in enumerate(t.split("\n")):
                    info = {"kind": "raw", "origin": ch[2], "oline": k + 1}
                    mm = LABEL_RE.search(ln)
                    if mm:
                        info["label"] = mm.group(1)
                    lines.append(ln)
                    lmap.append(info)
            elif ch[0] == "item":
                _, t2, rel, line, changed, note = ch
                for k, ln in enumerate(t2.rstrip("\n").split("\n")):
                    lines.append(ln)
                    lmap.append({"kind": "item", "src": rel, "sline": line + k})
            elif ch[0] == "stub":
                w = ch[1]
                fq = "stub:" + w.qual()
                emit("#[verifier::external_body]", {"kind": "ghost"})
                hdr = w.header_new if w.header_new is not None else w.ex.header.rstrip()
                emit(hdr, {"kind": "stubheader", "callee": fq})
                reqs = [(None, r) if not isinstance(r, tuple) else r for r in list(w.requires) + list(ch[2])]
                if reqs:
                    emit("    requires", {"kind": "ghost"})
                    for lab, r in reqs:
                        info = {"kind": "stubrequires", "callee": fq}
                        if lab:
                            info["label"] = lab
                        emit("        %s," % r, info)
                ens = list(w.ensures) + [("assumed", e) for e in (ch[3] if len(ch) > 3 else [])]
                if ens:
                    emit("    ensures", {"kind": "ghost"})
                    for lab, txt in ens:
                        for k, ln in enumerate(txt.split("\n")):
                            emit("        %s%s" % (ln, "," if k == len(txt.split("\n")) - 1 else ""), {"kind": "stubensures", "callee": fq})
                emit("{ unimplemented!() }", {"kind": "ghost"})
            else:
                w = ch[1]
                fq = w.qual()
                is_canary = ch[0] == "fn_canary"
                # facts about locals established before a loop stay available inside it: a harmless refactoring such as
                # `let bytes = s.as_bytes();` ahead of a loop must not break the proof (measured: a false alarm without this)
                if w.loops() and not getattr(w, "keep_isolation", False):
                    emit("#[verifier::loop_isolation(false)]", {"kind": "ghost", "fn": fq})
                    emit("#[verifier::allow_complex_invariants]", {"kind": "ghost", "fn": fq})
                for a in w.attrs:
                    emit(a, {"kind": "ghost", "fn": fq})
                hdr = w.header_new if w.header_new is not None else w.ex.header.rstrip()
                saved_ens = w.ensures
                if is_canary:
                    fq = fq + "#canary"
                    hdr, n = re.subn(r"\bfn\s+%s\b" % re.escape(w.emit_name), "fn %s__canary" % w.emit_name, hdr, count=1)
                    if n != 1:
                        raise LostAnchor("canary copy: cannot rename %s" % fq)
                    w.ensures = list(w.ensures) + [("CANARY", "false")]
                emit(hdr, {"kind": "header", "fn": fq, "src": w.ex.rel, "sline": w.ex.line})
                if w.requires:
                    emit("    requires", {"kind": "ghost", "fn": fq})
                    for r in w.requires:
                        if isinstance(r, tuple):
                            emit("        %s," % r[1], {"kind": "requires", "fn": fq, "label": r[0]})
                        else:
                            emit("        %s," % r, {"kind": "requires", "fn": fq})
                if w.ensures:
                    emit("    ensures", {"kind": "ghost", "fn": fq})
                    for lab, txt in w.ensures:
                        for k, ln in enumerate(txt.split("\n")):
                            emit("        %s%s" % (ln, "," if k == len(txt.split("\n")) - 1 else ""),
                                 {"kind": "ensures", "fn": fq, "label": lab})
                if w.decreases:
                    emit("    decreases %s" % w.decreases, {"kind": "ghost", "fn": fq})
                # body
                pieces = w.render_body()
                if is_canary and path_canary:
                    # reachability of every early exit: `return E` becomes `{ proof { assert(false); } return E }`; each assert must FAIL
                    saved_edits = list(w.edits)
                    try:
                        for kind, s0, e0 in lexer.code_tokens(w.body):
                            if kind == "ident" and w.body[s0:e0] == "return" and not any(ed.s <= s0 < ed.e for ed in saved_edits):
                                depth = 0
                                end = None
                                for k2, s2, e2 in lexer.tokens(w.body, e0):
                                    if k2 != "punct":
                                        continue
                                    ch = w.body[s2]
                                    if ch in "([{":
                                        depth += 1
                                    elif ch in ")]}":
                                        if depth == 0:
                                            end = s2
                                            break
                                        depth -= 1
                                    elif ch in ";," and depth == 0:
                                        end = s2
                                        break
                                if end is None:
                                    continue
                                k0 = s0 - 1
                                while k0 >= 0 and w.mbody[k0] in " \t\r\n":
                                    k0 -= 1
                                if k0 >= 1 and w.mbody[k0 - 1:k0 + 1] == "=>":
                                    # expression position (match arm): wrap
                                    w.edits.append(Edit(s0, s0, "{ proof { assert(false); /*CANARY-PATH*/ } ", "CANARY", "", 10 ** 6))
                                    w.edits.append(Edit(end, end, " }", "CANARY", "", 10 ** 6 + 1))
                                else:
                                    w.edits.append(Edit(s0, s0, "proof { assert(false); /*CANARY-PATH*/ } ", "CANARY", "", 10 ** 6))
                        pieces = w.render_body()
                    finally:
                        w.edits = saved_edits
                cur = ""
                cur_info = None
                body_line0 = lexer.line_of(w.ex.file_text, w.ex.body_open)
                for text, off in pieces:
                    parts = text.split("\n")
                    for k, part in enumerate(parts):
                        if k > 0:
                            lines.append(cur)
                            lmap.append(cur_info or {"kind": "ghost", "fn": fq})
                            cur = ""
                            cur_info = None
                        cur += part
                        if off is not None and part.strip() and cur_info is None:
                            o = off + sum(len(x) + 1 for x in parts[:k])
                            cur_info = {"kind": "body", "fn": fq, "src": w.ex.rel,
                                        "sline": body_line0 + w.ex.body.count("\n", 0, o)}
                lines.append(cur)
                lmap.append(cur_info or {"kind": "ghost", "fn": fq})
                w.ensures = saved_ens
        # label markers `// [C01.x,C03.y]` on any generated line
        for i, ln in enumerate(lines):
            if "label" not in lmap[i]:
                mm = LABEL_RE.search(ln)
                if mm:
                    lmap[i]["label"] = mm.group(1)
        # function line ranges
        return "\n".join(lines) + "\n", lmap
