"""Build a unit from /repo's working tree, run Verus on it (plus the vacuity canary), and turn
Verus's diagnostics into obligation verdicts keyed by contract label."""
import os
import re
import json
import time
import hashlib
import importlib
import subprocess
import concurrent.futures as cf

from .weaver import LostAnchor
from . import lexer

ROOT = os.path.dirname(os.path.dirname(os.path.abspath(__file__)))
GEN = os.environ.get("VERIF_GEN") or os.path.join(ROOT, "generated")
VERUS = os.environ.get("VERIF_VERUS", "verus")

# Messages that mean "this proof obligation was not discharged".  Anything else at error level
# (type errors in woven text, unsupported constructs, rlimit) is UNDECIDED, never a violation.
VERIF_FAIL = [
    "postcondition not satisfied",
    "precondition not satisfied",
    "assertion failed",
    "possible arithmetic underflow/overflow",
    "possible division by zero",
    "invariant not satisfied at end of loop body",
    "invariant not satisfied before loop",
    "loop invariant not preserved",
    "loop invariant not satisfied",
    "decreases not satisfied",
    "unreachable",
    "possible bit shift underflow/overflow",
    "could not prove termination",
    "cannot show invariant holds",
    "at the continue",
    "at the break",
]
PANIC_MSGS = ("possible arithmetic underflow/overflow", "possible division by zero")


def is_verif_failure(msg):
    return any(k in msg for k in VERIF_FAIL)


def build_unit(name):
    mod = importlib.import_module("contracts.u_" + name)
    importlib.reload(mod)
    return mod.build()


def canary_text(unit):
    """The unit plus, for every real function, a copy `<name>__canary` that additionally ensures false.
    Callers keep calling the originals, so every copy must fail by itself."""
    return unit.render(canary=True)


def run_verus(path, rlimit=None, extra=(), multiple_errors=50):
    cmd = [VERUS, path, "--triggers-mode", "silent", "--multiple-errors", str(multiple_errors), "--output-json", "--time"]
    if rlimit:
        cmd += ["--rlimit", str(rlimit)]
    cmd += list(extra) + ["--", "--error-format=json"]
    t0 = time.time()
    try:
        r = subprocess.run(cmd, capture_output=True, text=True, timeout=float(os.environ.get("VERIF_VERUS_TIMEOUT", "900")), cwd=GEN)
    except subprocess.TimeoutExpired:
        return {"cmd": " ".join(cmd), "timeout": True, "diags": [], "summary": None, "wall": time.time() - t0, "raw": ""}
    wall = time.time() - t0
    diags = []
    for ln in r.stderr.split("\n"):
        ln = ln.strip()
        if ln.startswith("{") and '"$message_type"' in ln:
            try:
                d = json.loads(ln)
            except Exception:
                continue
            if d.get("$message_type") == "diagnostic":
                diags.append(d)
    summary = None
    try:
        i = r.stdout.index("{")
        summary = json.loads(r.stdout[i:])
    except Exception:
        pass
    return {"cmd": " ".join(cmd), "timeout": False, "diags": diags, "summary": summary, "wall": wall,
            "raw": r.stderr[-20000:], "rc": r.returncode}


def classify(diags, lmap):
    """-> (failures, hard_errors). failures: dicts with fn/label/msg/line info."""
    failures = []
    hard = []
    for d in diags:
        if d.get("level") != "error":
            continue
        msg = d.get("message", "")
        if msg.startswith("aborting due to"):
            continue
        spans = d.get("spans", [])
        if not is_verif_failure(msg):
            hard.append({"msg": msg, "line": spans[0]["line_start"] if spans else None,
                         "rendered": (d.get("rendered") or "")[:1500]})
            continue
        info = {"msg": msg, "label": None, "fn": None, "gen_line": None, "src": None, "sline": None,
                "clause_line": None, "rendered": (d.get("rendered") or "")[:3000]}
        clause = None
        site = None
        for sp in spans:
            lab = sp.get("label") or ""
            if "failed this postcondition" in lab or "failed precondition" in lab or "failed this" in lab:
                clause = sp
            else:
                if site is None or sp.get("is_primary"):
                    site = site if (site is not None and not sp.get("is_primary")) else sp
        if clause is not None:
            li = clause["line_start"] - 1
            if 0 <= li < len(lmap):
                info["label"] = lmap[li].get("label")
                info["clause_line"] = clause["line_start"]
                info["clause_text"] = (clause.get("text") or [{}])[0].get("text", "").strip()
                if lmap[li].get("kind") == "ensures":
                    info["fn"] = lmap[li].get("fn")
                if lmap[li].get("kind") in ("requires", "stubrequires"):
                    info["callee"] = lmap[li].get("fn") or lmap[li].get("callee")
        if info["label"] is None:
            # invariants / hint assertions carry `// [LABELS]` markers on their own line
            for sp in spans:
                li = sp["line_start"] - 1
                if 0 <= li < len(lmap) and lmap[li].get("label") and lmap[li].get("kind") != "raw":
                    info["label"] = lmap[li]["label"]
                    info["clause_text"] = (sp.get("text") or [{}])[0].get("text", "").strip()
                    break
        prim = None
        for sp in spans:
            if sp.get("is_primary"):
                prim = sp
        # the *site* is where in a real function the obligation arises
        cand = [sp for sp in spans if sp is not clause]
        if "postcondition" in msg:
            cand = [sp for sp in spans if sp is not clause] or spans
        for sp in cand or spans:
            li = sp["line_start"] - 1
            if 0 <= li < len(lmap) and lmap[li].get("fn"):
                info["fn"] = info["fn"] or lmap[li]["fn"]
                info["gen_line"] = sp["line_start"]
                info["src"] = lmap[li].get("src")
                info["sline"] = lmap[li].get("sline")
                info["site_text"] = (sp.get("text") or [{}])[0].get("text", "").strip()
                break
        if info["fn"] is None:
            # failure inside a raw chunk (lemma or helper): report by origin
            sp = prim or (spans[0] if spans else None)
            if sp:
                li = sp["line_start"] - 1
                if 0 <= li < len(lmap):
                    info["fn"] = "%s:%s" % (lmap[li].get("origin", "?"), lmap[li].get("oline", "?"))
                    info["gen_line"] = sp["line_start"]
                    info["raw_chunk"] = True
                    origin = lmap[li].get("origin", "")
                    if origin.endswith("helper"):
                        # helper functions generated from REAL closure text (R3 / R9): their obligations are obligations of the repository's code
                        info["fn"] = "helper(%s)" % origin
                        if info["label"] is None:
                            for sp2 in spans:
                                l2 = sp2["line_start"] - 1
                                if 0 <= l2 < len(lmap) and lmap[l2].get("label"):
                                    info["label"] = lmap[l2]["label"]
                        failures.append(info)
                        continue
            # a failure wholly inside /verif's own static text (lemma, helper) is a machinery problem, not a verdict on /repo
            hard.append({"msg": "obligation inside static chunk failed: " + msg, "line": info.get("gen_line"), "rendered": info["rendered"][:1500]})
            continue
        failures.append(info)
    return failures, hard


def fn_ranges(lmap):
    """generated line ranges per woven fn"""
    r = {}
    for i, m in enumerate(lmap):
        fn = m.get("fn")
        if fn:
            a, b = r.get(fn, (i + 1, i + 1))
            r[fn] = (min(a, i + 1), max(b, i + 1))
    return r


def path_canary(name):
    """thorough tier: in the canary copies an `assert(false)` precedes every `return`; each must FAIL (the exit is reachable).
    Returns {"returns": n, "failed_as_expected": m, "unreachable_or_vacuous": [...]}."""
    unit = build_unit(name)
    text, lmap = unit.render(canary=True, path_canary=True)
    path = os.path.join(GEN, name + "__pathcanary.rs")
    with open(path, "w") as f:
        f.write(text)
    out = run_verus(path, None, (), 200)
    lines = text.split("\n")
    want = [i + 1 for i, ln in enumerate(lines) if "/*CANARY-PATH*/" in ln]
    failed = set()
    for d in out["diags"]:
        if d.get("level") == "error" and "assertion failed" in d.get("message", ""):
            for sp in d.get("spans", []):
                failed.add(sp["line_start"])
    missing = [ln for ln in want if ln not in failed]
    return {"returns": len(want), "failed_as_expected": len(want) - len(missing),
            "not_failed": [{"gen_line": ln, "fn": lmap[ln - 1].get("fn"), "repo_line": lmap[ln - 1].get("sline")} for ln in missing][:20],
            "wall_s": round(out["wall"], 1)}


def run_unit(name, canary=True, rlimit=None):
    """Returns a result dict; never raises for LostAnchor."""
    os.makedirs(GEN, exist_ok=True)
    res = {"unit": name, "status": "ok", "failures": [], "hard": [], "undecided_reason": None}
    t0 = time.time()
    try:
        unit = build_unit(name)
        text, lmap = unit.render()
        for f in unit.fns:
            if not f.erasure_ok():
                raise LostAnchor("erasure self-check failed for %s (weaver bug)" % f.qual())
        ctext, clmap = canary_text(unit)
    except LostAnchor as e:
        res["status"] = "undecided"
        res["undecided_reason"] = "lost anchor: %s" % e
        res["wall"] = time.time() - t0
        return res
    except lexer.LexError as e:
        res["status"] = "undecided"
        res["undecided_reason"] = "lexer: %s" % e
        res["wall"] = time.time() - t0
        return res
    except (IndexError, KeyError, ValueError, AttributeError, TypeError, AssertionError) as e:
        # a unit builder that cannot find the code shape it weaves into (a loop, an argument list, a struct field) is a lost anchor, not a verdict
        import traceback
        tb = traceback.extract_tb(e.__traceback__)[-1]
        res["status"] = "undecided"
        res["undecided_reason"] = "lost anchor: the unit builder could not weave into the changed code (%s: %s at %s:%d)" % (type(e).__name__, e, os.path.basename(tb.filename), tb.lineno)
        res["wall"] = time.time() - t0
        return res
    path = os.path.join(GEN, name + ".rs")
    cpath = os.path.join(GEN, name + "__canary.rs")
    with open(path, "w") as f:
        f.write(text)
    with open(cpath, "w") as f:
        f.write(ctext)
    with open(os.path.join(GEN, name + ".map.json"), "w") as f:
        json.dump(lmap, f)
    with cf.ThreadPoolExecutor(max_workers=2) as ex:
        fut = ex.submit(run_verus, path, rlimit)
        cfut = ex.submit(run_verus, cpath, rlimit, (), 0) if canary else None
        out = fut.result()
        cout = cfut.result() if cfut else None
    res["verus_cmd"] = out["cmd"]
    res["verus_wall"] = out["wall"]
    res["summary"] = (out["summary"] or {}).get("verification-results")
    times = (out["summary"] or {}).get("times-ms") or {}
    res["smt_ms"] = (times.get("smt") or {}).get("total") if isinstance(times.get("smt"), dict) else None
    res["times_ms"] = {k: (v.get("total") if isinstance(v, dict) else v) for k, v in times.items()} if times else {}
    res["sha256"] = hashlib.sha256(text.encode()).hexdigest()
    failures, hard = classify(out["diags"], lmap)
    res["failures"] = failures
    res["hard"] = hard
    # guard against std functions that Verus ACCEPTS WITHOUT A FUNCTIONAL SPECIFICATION (their results are arbitrary, so a harmless edit
    # that starts using one makes proofs fail): a function that newly calls one of them gets its failures reported as UNDECIDED
    UNSPECIFIED = {"len", "eq", "ne", "clone", "load", "store", "swap", "fetch_add", "fetch_sub", "compare_exchange", "cmp", "partial_cmp", "to_owned"}
    try:
        with open(os.path.join(ROOT, "baseline", "callees.json")) as bf:
            base_callees = json.load(bf)
    except Exception:
        base_callees = {}
    suspects = {}
    for f in unit.fns:
        cur = set(re.findall(r"\.\s*(\w+)\s*\(", f.mbody)) | set(re.findall(r"(?<![\.\w])(\w+)\s*\(", f.mbody))
        new = (cur - set(base_callees.get(f.qual(), cur))) & UNSPECIFIED
        # calls rewritten by a rule (given a meaning by a shim) do not count
        rewritten = " ".join(ed.new for ed in f.edits)
        given = set()
        if "str_len(" in rewritten or "str_char_count(" in rewritten:
            given.add("len")
        if "counter_load(" in rewritten or "stop_poll(" in rewritten:
            given.add("load")
        if "axiom_fetch_add(" in rewritten:
            given.add("fetch_add")
        new = new - given
        if new:
            suspects[f.qual()] = sorted(new)
    res["suspect_unspecified_calls"] = suspects
    res["functions"] = [{"fn": f.qual(), "src": f.ex.rel, "line": f.ex.line, "props": sorted(f.props),
                         "labels": [l for l, _ in f.ensures], "rules": f.applied} for f in unit.fns]
    res["labels"] = sorted({lab for f in unit.fns for l, _ in f.ensures for lab in l.split(",")} |
                           {m["label"] for m in lmap if m.get("kind") == "raw" and m.get("label")})
    res["trusted"] = list(unit.trusted)
    res["rules_log"] = list(unit.rules_log)
    res["raw_files"] = list(unit.raw_files)
    res["stubs"] = list(unit.stubs)
    # trust scan of the generated text
    scan = {}
    for kw in ("admit()", "assume(", "external_body", "assume_specification", "uninterp"):
        scan[kw] = text.count(kw)
    res["trust_scan"] = scan
    # names of everything assumed in this unit (the trusted base, mechanically scanned from the generated text)
    stub_names = {q.split("::")[-1] for q, _ in unit.stubs}
    ext = re.findall(r"#\[verifier::external_body\]\s*(?:#\[[^\]]*\]\s*)*(?:pub\s+)?(?:async\s+)?(fn|struct)\s+(\w+)", text)
    res["trusted_items"] = {
        "external_body_fns (assumed contracts)": sorted({n for k, n in ext if k == "fn" and n not in stub_names}),
        "stubs carrying contracts PROVED in another unit": sorted("%s (%s)" % (q, note) for q, note in unit.stubs),
        "opaque external types": sorted({n for k, n in ext if k == "struct"}),
        "assume_specification": sorted(set(re.findall(r"assume_specification(?:<[^>]*>)?\s*\[\s*([^\]]+?)\s*\]", text))),
        "admitted axioms / ghost-world transitions": sorted({([None] + re.findall(r"proof fn (\w+)", text[:m_.start()]))[-1] for m_ in re.finditer(r"admit\(\);", text)} - {None}),
        "uninterpreted spec functions": sorted(set(re.findall(r"uninterp spec fn (\w+)", text))),
    }
    if out["timeout"]:
        res["status"] = "undecided"
        res["undecided_reason"] = "verus timeout"
    elif out["summary"] is None or res["summary"] is None:
        res["status"] = "undecided"
        res["undecided_reason"] = "verus produced no result: " + "; ".join(h["msg"] for h in hard[:5]) + out["raw"][-600:]
    elif hard:
        res["status"] = "undecided"
        res["undecided_reason"] = "verus rejected the woven text: " + "; ".join("%s (line %s)" % (h["msg"], h["line"]) for h in hard[:5])
    elif failures:
        res["status"] = "failed"
        sus_fail = [f for f in failures if (f.get("fn") or "").replace("#canary", "") in suspects]
        if sus_fail:
            res["failures"] = [f for f in failures if f not in sus_fail]
            res["status"] = "undecided"
            res["undecided_reason"] = "obligations failed in %s, which newly calls %s: accepted by Verus without a functional specification, so the failure may be an artefact" % (
                ", ".join(sorted({f["fn"] for f in sus_fail})), ", ".join(sorted({n for f in sus_fail for n in suspects[f["fn"].replace("#canary", "")]})))
    elif res["summary"].get("errors", 0) != 0 or not res["summary"].get("success", False):
        res["status"] = "undecided"
        res["undecided_reason"] = "verus reported errors that could not be classified"
    # canary
    if cout is not None:
        cfail, chard = classify(cout["diags"], clmap)
        failed_any = {f["fn"] for f in cfail if f.get("fn")}
        allf = [f.qual() for f in unit.fns]
        vacuous = [q for q in allf if (q + "#canary") not in failed_any]
        res["canary"] = {"functions": len(allf), "failed_as_expected": len(allf) - len(vacuous),
                         "vacuous": vacuous, "wall": cout["wall"]}
        if chard and not hard:
            res["canary"]["note"] = "canary run had non-verification errors: " + chard[0]["msg"]
            if res["status"] == "ok":
                res["status"] = "undecided"
                res["undecided_reason"] = "canary run rejected: " + chard[0]["msg"]
        elif vacuous and res["status"] == "ok":
            res["status"] = "undecided"
            res["undecided_reason"] = "vacuity canary: `ensures false` verified for %s" % ", ".join(vacuous)
    res["wall"] = time.time() - t0
    return res
