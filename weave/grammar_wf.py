"""Derives parse-tree shape facts mechanically from src/parser/rust_grammar.pest (DESIGN.md §3.3).

For every rule R that produces a pair (normal `{}`, atomic `@{}`, compound `${}`): the set of rules that can be
direct children of an R pair (silent rules `_{}` are looked through; built-ins produce no pair except EOI), and,
when R's expression is a plain `~` sequence of (optional) items, the exact order of its children.
The output is Verus text: the `Rule` enum and `kids_rule_ok(g)`.  If the grammar changes, the facts change with it."""
import re
import os

BUILTINS_NO_PAIR = {"ANY", "SOI", "PUSH", "POP", "PEEK", "DROP", "NEWLINE"}


def parse_grammar(text):
    # strip comments
    lines = []
    for ln in text.split("\n"):
        i = ln.find("//")
        # a `//` inside a string literal must stay: only strip when not within quotes
        q = False
        cut = None
        k = 0
        while k < len(ln):
            c = ln[k]
            if c == "\\" and q:
                k += 2
                continue
            if c == '"':
                q = not q
            if not q and ln.startswith("//", k):
                cut = k
                break
            k += 1
        lines.append(ln if cut is None else ln[:cut])
    t = "\n".join(lines)
    rules = {}
    order = []
    i = 0
    rx = re.compile(r"\s*(\w+)\s*=\s*([_@$!]?)\s*\{", re.S)
    while True:
        m = rx.match(t, i)
        if not m:
            if t[i:].strip() == "":
                break
            raise ValueError("grammar parse error near: %r" % t[i:i + 60])
        name, mod = m.group(1), m.group(2)
        # find matching close brace, skipping string literals
        depth = 1
        k = m.end()
        q = False
        while depth > 0:
            c = t[k]
            if q:
                if c == "\\":
                    k += 2
                    continue
                if c == '"':
                    q = False
            else:
                if c == '"':
                    q = True
                elif c == "{":
                    depth += 1
                elif c == "}":
                    depth -= 1
            k += 1
        rules[name] = (mod, t[m.end():k - 1].strip())
        order.append(name)
        i = k
    return rules, order


def strip_strings(expr):
    return re.sub(r'"(?:\\.|[^"\\])*"', ' "" ', expr)


def idents(expr):
    return re.findall(r"[A-Za-z_][A-Za-z0-9_]*", strip_strings(expr))


def child_set(rules, name, seen=None):
    """rules producing pairs that may be direct children of a `name` pair"""
    seen = seen or set()
    out = set()
    mod, expr = rules[name]
    for idn in idents(expr):
        if idn == "EOI":
            out.add("EOI")
        elif idn in rules:
            m2, _ = rules[idn]
            if m2 == "_":
                if idn not in seen:
                    out |= child_set(rules, idn, seen | {idn})
            else:
                out.add(idn)
    # implicit WHITESPACE / COMMENT are inserted between `~` items of non-atomic rules; both are silent here
    for imp in ("WHITESPACE", "COMMENT"):
        if imp in rules and rules[imp][0] != "_" and mod not in ("@", "$"):
            out.add(imp)
    return out


def seq_pattern(rules, name):
    """If the rule is `a ~ b? ~ "lit" ~ c` (a pure sequence of literals / rule refs with optional `?`), return
    [(rule, optional)] for the pair-producing items, looking through silent rules that produce no pairs; else None."""
    mod, expr = rules[name]
    e = strip_strings(expr)
    if re.search(r"[|*+{}]", e) or "(" in e:
        return None
    items = [x.strip() for x in e.split("~")]
    out = []
    for it in items:
        if it in ('""', ""):
            continue
        m = re.match(r"^(!)?\s*(\w+)\s*(\?)?$", it)
        if not m:
            return None
        neg, idn, opt = m.groups()
        if neg:
            continue
        if idn in BUILTINS_NO_PAIR or (idn not in rules and idn != "EOI"):
            continue
        if idn in rules and rules[idn][0] == "_":
            if child_set(rules, idn):
                return None   # a silent rule that can produce pairs: give up on exact order
            continue
        out.append((idn, bool(opt)))
    return out


def verus_text(grammar_path):
    with open(grammar_path) as f:
        rules, order = parse_grammar(f.read())
    pair_rules = [r for r in order if rules[r][0] != "_"]
    names = ["EOI"] + order
    enum = "#[allow(non_camel_case_types)]\n#[derive(Copy, Clone, PartialEq, Eq, Structural, Debug)]\npub enum Rule { %s }\n" % ", ".join(names)
    arms = []
    facts = {}
    for r in pair_rules:
        cs = sorted(child_set(rules, r))
        pat = seq_pattern(rules, r)
        facts[r] = {"children": cs, "sequence": pat}
        conds = []
        if cs:
            conds.append("(forall|i: int| 0 <= i < g.children.len() ==> %s)" % " || ".join(
                ("(#[trigger] g.children[i]).rule == Rule::%s" if k == 0 else "g.children[i].rule == Rule::%s") % c for k, c in enumerate(cs)))
        else:
            conds.append("g.children.len() == 0")
        if pat is not None and pat:
            # exact order: mandatory items appear, optional ones may be skipped
            mand = [p for p, o in pat if not o]
            n_min, n_max = len(mand), len(pat)
            conds.append("%d <= g.children.len() <= %d" % (n_min, n_max))
            if all(not o for _, o in pat):
                for k, (p, _) in enumerate(pat):
                    conds.append("g.children[%d].rule == Rule::%s" % (k, p))
            else:
                # last mandatory item is last child; optional items precede in order
                if not pat[-1][1]:
                    conds.append("g.children[g.children.len() - 1].rule == Rule::%s" % pat[-1][0])
                if not pat[0][1]:
                    conds.append("g.children[0].rule == Rule::%s" % pat[0][0])
        arms.append("        Rule::%s => %s," % (r, " && ".join(conds)))
    arms.append("        _ => true,")
    fn = ("// GENERATED by weave/grammar_wf.py from src/parser/rust_grammar.pest: which rules can be children of which\n"
          "pub open spec fn kids_rule_ok(g: PairG) -> bool {\n    match g.rule {\n%s\n    }\n}\n" % "\n".join(arms))
    return enum, fn, facts
