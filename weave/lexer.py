"""Minimal Rust lexer: enough to match brackets and find items while skipping
strings, raw strings, byte strings, char literals, lifetimes and comments.
No third-party dependencies."""
import re

IDENT_START = set("abcdefghijklmnopqrstuvwxyzABCDEFGHIJKLMNOPQRSTUVWXYZ_")
IDENT_CONT = IDENT_START | set("0123456789")
OPEN = {"(": ")", "[": "]", "{": "}"}
CLOSE = {")": "(", "]": "[", "}": "{"}


class LexError(Exception):
    pass


def tokens(text, start=0, end=None):
    """Yield (kind, start, end). kinds: ident, num, str, char, lifetime, comment, punct, ws"""
    i = start
    n = len(text) if end is None else end
    while i < n:
        c = text[i]
        if c in " \t\r\n":
            j = i + 1
            while j < n and text[j] in " \t\r\n":
                j += 1
            yield ("ws", i, j)
            i = j
            continue
        if text.startswith("//", i):
            j = text.find("\n", i)
            if j < 0 or j > n:
                j = n
            yield ("comment", i, j)
            i = j
            continue
        if text.startswith("/*", i):
            depth = 1
            j = i + 2
            while j < n and depth > 0:
                if text.startswith("/*", j):
                    depth += 1
                    j += 2
                elif text.startswith("*/", j):
                    depth -= 1
                    j += 2
                else:
                    j += 1
            yield ("comment", i, j)
            i = j
            continue
        # raw strings r"..", r#".."#, br".."
        m = re.compile(r'b?r(#*)"').match(text, i)
        if m and (i == 0 or text[i - 1] not in IDENT_CONT):
            hashes = m.group(1)
            close = '"' + hashes
            j = text.find(close, m.end())
            if j < 0:
                raise LexError("unterminated raw string at %d" % i)
            j += len(close)
            yield ("str", i, j)
            i = j
            continue
        if c == '"' or (c == "b" and i + 1 < n and text[i + 1] == '"' and (i == 0 or text[i - 1] not in IDENT_CONT)):
            j = i + (2 if c == "b" else 1)
            while j < n:
                if text[j] == "\\":
                    j += 2
                    continue
                if text[j] == '"':
                    break
                j += 1
            if j >= n:
                raise LexError("unterminated string at %d" % i)
            j += 1
            yield ("str", i, j)
            i = j
            continue
        if c == "'":
            # char literal or lifetime
            if i + 1 < n and text[i + 1] == "\\":
                j = i + 2
                while j < n and text[j] != "'":
                    j += 1
                yield ("char", i, j + 1)
                i = j + 1
                continue
            # 'x' (any single char, possibly multibyte in python = 1 char)
            if i + 2 < n and text[i + 2] == "'":
                yield ("char", i, i + 3)
                i += 3
                continue
            j = i + 1
            while j < n and text[j] in IDENT_CONT:
                j += 1
            yield ("lifetime", i, j)
            i = j
            continue
        if c in IDENT_START or ord(c) > 127:
            j = i + 1
            while j < n and (text[j] in IDENT_CONT or ord(text[j]) > 127):
                j += 1
            yield ("ident", i, j)
            i = j
            continue
        if c.isdigit():
            j = i + 1
            while j < n and (text[j] in IDENT_CONT or (text[j] == "." and j + 1 < n and text[j + 1].isdigit())):
                j += 1
            yield ("num", i, j)
            i = j
            continue
        yield ("punct", i, i + 1)
        i += 1


def code_tokens(text, start=0, end=None):
    """tokens without whitespace and comments"""
    return [t for t in tokens(text, start, end) if t[0] not in ("ws", "comment")]


def match_close(text, open_idx, limit=None):
    """Given index of an opening bracket, return index of its matching close."""
    assert text[open_idx] in OPEN, (text[open_idx], open_idx)
    stack = []
    for kind, s, e in tokens(text, open_idx, limit):
        if kind != "punct":
            continue
        ch = text[s]
        if ch in OPEN:
            stack.append(ch)
        elif ch in CLOSE:
            if not stack or stack[-1] != CLOSE[ch]:
                raise LexError("mismatched bracket at %d" % s)
            stack.pop()
            if not stack:
                return s
    raise LexError("no close for bracket at %d" % open_idx)


def mask(text):
    """Return text with the *contents* of comments, strings and chars replaced
    by spaces (same length), so regexes on it only see code."""
    out = list(text)
    for kind, s, e in tokens(text):
        if kind in ("comment", "str", "char"):
            for k in range(s, e):
                if out[k] != "\n":
                    out[k] = " "
    return "".join(out)


def line_of(text, idx):
    return text.count("\n", 0, idx) + 1


def stmt_end(text, idx, limit=None):
    """Index just past the `;` ending the statement that contains idx (same
    bracket depth as idx)."""
    depth = 0
    for kind, s, e in tokens(text, idx, limit):
        if kind != "punct":
            continue
        ch = text[s]
        if ch in OPEN:
            depth += 1
        elif ch in CLOSE:
            depth -= 1
            if depth < 0:
                raise LexError("statement end not found from %d" % idx)
        elif ch == ";" and depth == 0:
            return s + 1
    raise LexError("statement end not found from %d" % idx)


def stmt_start(text, idx, floor=0):
    """Index of the first non-space char of the statement containing idx: scans backwards (on masked text) to the
    previous `;`, an enclosing `{`, or a `}` that ends a block statement (a `}` followed by `.`, `?`, `)`, `,`, `;`,
    an operator or `else` belongs to the current expression and is skipped with its block)."""
    m = mask(text)
    depth = 0
    i = idx - 1
    while i >= floor:
        ch = m[i]
        if ch in CLOSE:
            if depth == 0 and ch == "}":
                j = i + 1
                while j < len(m) and m[j] in " \t\r\n":
                    j += 1
                nxt = m[j:j + 4]
                if not (nxt[:1] in ".?),;=+-*/|&<>" or nxt.startswith("else") or nxt.startswith("as ")):
                    break
            depth += 1
        elif ch in OPEN:
            if depth == 0:
                break
            depth -= 1
        elif ch == ";" and depth == 0:
            break
        i -= 1
    j = i + 1
    while j < idx and text[j] in " \t\r\n":
        j += 1
    return j
