"""Rewrite rules R1..R12 (DESIGN.md §3.2).  Each application is logged on the
Woven object (w.applied) and ends up in the evidence file.  Rules are generic:
the real text (conditions, literals, argument expressions) flows through them,
so a change to that text changes the verified text."""
import re
from . import lexer
from .weaver import LostAnchor, inv_text

WORLD_PARAM = "Tracked(w): Tracked<&mut World>"
WORLD_ARG = "Tracked(w)"


def split_top_commas(text):
    """split `a, b(c, d), e` at top-level commas; returns list of (start, end) offsets (trimmed)"""
    parts = []
    depth = 0
    start = 0
    for kind, s, e in lexer.tokens(text):
        if kind != "punct":
            continue
        ch = text[s]
        if ch in "([{":
            depth += 1
        elif ch in ")]}":
            depth -= 1
        elif ch == "," and depth == 0:
            parts.append((start, s))
            start = s + 1
    parts.append((start, len(text)))
    out = []
    for a, b in parts:
        seg = text[a:b]
        if seg.strip() == "":
            continue
        la = a + (len(seg) - len(seg.lstrip()))
        lb = b - (len(seg) - len(seg.rstrip()))
        out.append((la, lb))
    return out


# ----------------------------------------------------------------------------
# header
# ----------------------------------------------------------------------------

def sig(w, ret=None, world=False, name=None, pub=True, drop_generics=False, replace_header=None, self_world=False):
    """Transform the header of a real function.
    ret: name for the return value (`-> T` becomes `-> (ret: T)`).
    world: append the erased ghost parameter (R8).
    name: emit under another name (R10 monomorphised copies).
    replace_header: (R10) full replacement text for generic drivers; the original parameter
      names must still all occur in it."""
    # R7: `const X: &str = ..` inside a fn body needs an explicit 'static inside verus! (a const reference is 'static anyway)
    for hc in re.finditer(r"const\s+(\w+)\s*:\s*&str\s*=", w.mbody):
        w.replace(hc.start(), hc.end(), "const %s: &'static str =" % hc.group(1), "R7", "explicit 'static on a local const &str")
    h = w.ex.header.strip()
    mh = lexer.mask(h)
    if replace_header is not None:
        # parameter names of the original must be preserved
        po = mh.index("(", mh.index("fn "))
        pc = lexer.match_close(h, po)
        for a, b in split_top_commas(h[po + 1:pc]):
            pname = h[po + 1:pc][a:b].split(":")[0].strip()
            if pname and not re.search(r"\b%s\b" % re.escape(pname.replace("mut ", "").strip()), replace_header):
                raise LostAnchor("header of %s changed: parameter %r not in monomorphised header" % (w.qual(), pname))
        w.header_new = replace_header
        w.applied.append(("R10", "monomorphised header"))
        return
    m = re.match(r"(pub(?:\([a-z]+\))?\s+)?((?:const\s+)?(?:async\s+)?)fn\s+(\w+)", mh)
    if not m:
        raise LostAnchor("header shape of %s" % w.qual())
    vis, quals, fname = m.group(1) or "", m.group(2) or "", m.group(3)
    rest = h[m.end():]
    mrest = mh[m.end():]
    # generics
    po = mrest.index("(")
    generics = rest[:po]
    pc = lexer.match_close(rest, po)
    params = rest[po + 1:pc]
    after = rest[pc + 1:]
    if world:
        p = params.rstrip()
        if p.endswith(","):
            p = p[:-1]
        params = (p + ", " if p.strip() else "") + WORLD_PARAM
        w.applied.append(("R8", "ghost World parameter"))
    mafter = lexer.mask(after)
    am = re.match(r"\s*->\s*", mafter)
    where = ""
    rtype = None
    if am:
        rt = after[am.end():]
        wi = re.search(r"\bwhere\b", lexer.mask(rt))
        if wi:
            where = " " + rt[wi.start():].strip()
            rt = rt[:wi.start()]
        rtype = rt.strip()
    else:
        wi = re.search(r"\bwhere\b", mafter)
        if wi:
            where = " " + after[wi.start():].strip()
    out = ("pub " if pub else vis) + quals + "fn " + (name or fname) + generics + "(" + params + ")"
    if rtype is not None:
        out += " -> (%s: %s)" % (ret, rtype) if ret else " -> " + rtype
    out += where
    if pub and not vis:
        w.applied.append(("R7", "visibility normalised"))
    w.header_new = out


# ----------------------------------------------------------------------------
# R1: log statements -> ghost events
# ----------------------------------------------------------------------------

LOG_MACRO_RE = r"\b(?:log::)?(info|warn|error)!\s*\("
TRACE_RE = r"\btracing::event!\s*\("
SPAWN_RE = r"\btask::spawn\s*\(\s*async(?:\s+move)?\s*\{"


def _ref_tag(lit):
    m = re.match(r'"\[ref: (\d+)\]', lit)
    return int(m.group(1)) if m else None


def r1_logs(w, world=True, schema=None):
    """schema: {tag: [kind,...]} kinds: 's' (String/&str expression -> `@`), 'n' (integer -> `as int`),
    '-' (ignored).  Tags not in schema keep only the tag."""
    schema = schema or {}
    body, mbody = w.body, w.mbody
    done_spans = []

    def event_for(macro_start):
        # macro_start: index of macro name; find '(' and args
        po = mbody.index("(", macro_start)
        pc = lexer.match_close(body, po)
        inner = body[po + 1:pc]
        parts = split_top_commas(inner)
        if not parts:
            raise LostAnchor("empty log macro in %s" % w.qual())
        lit = inner[parts[0][0]:parts[0][1]]
        tag = _ref_tag(lit)
        args = [inner[a:b] for a, b in parts[1:]]
        if tag is None:
            return pc, None
        kinds = schema.get(tag)
        if not world:
            return pc, ""
        if kinds is None:
            return pc, "proof { log_event(w, %d, seq![], seq![]); }" % tag
        if len(kinds) != len(args):
            raise LostAnchor("log statement [ref: %d] in %s has %d arguments, contract schema expects %d" % (tag, w.qual(), len(args), len(kinds)))
        ss = [("%s@" % a if re.match(r"^[\w\.]+$", a) else "(%s)@" % a) for a, k in zip(args, kinds) if k == "s"]
        ns = ["(%s) as int" % a for a, k in zip(args, kinds) if k == "n"]
        return pc, "proof { log_event(w, %d, seq![%s], seq![%s]); }" % (tag, ", ".join(ss), ", ".join(ns))

    # spawned form
    for h in re.finditer(SPAWN_RE, mbody):
        ob = h.end() - 1
        cb = lexer.match_close(body, ob)
        # closing paren of spawn( then .await
        m2 = re.compile(r"\s*\)\s*\.await").match(mbody, cb + 1)
        if not m2:
            raise LostAnchor("task::spawn without .await in %s" % w.qual())
        inner_m = re.search(LOG_MACRO_RE, mbody[ob:cb])
        if not inner_m:
            raise LostAnchor("task::spawn block without a log macro in %s" % w.qual())
        pc, ev = event_for(ob + inner_m.start())
        # the block must contain only the macro statement
        tail = mbody[pc + 1:cb].strip()
        head = mbody[ob + 1:ob + inner_m.start()].strip()
        if tail not in (";", "") or head != "":
            raise LostAnchor("task::spawn block has more than a log statement in %s" % w.qual())
        if ev is None:
            raise LostAnchor("log statement without [ref: N] tag in %s" % w.qual())
        w.replace(h.start(), m2.end(), "{ %s }" % ev, "R1", "spawned log statement -> ghost event")
        done_spans.append((h.start(), m2.end()))
    for h in re.finditer(LOG_MACRO_RE, mbody):
        if any(a <= h.start() < b for a, b in done_spans):
            continue
        pc, ev = event_for(h.start())
        if ev is None:
            raise LostAnchor("log statement without [ref: N] tag in %s" % w.qual())
        w.replace(h.start(), pc + 1, "{ %s }" % ev, "R1", "log statement -> ghost event")
    for h in re.finditer(TRACE_RE, mbody):
        po = h.end() - 1
        pc = lexer.match_close(body, po)
        w.replace(h.start(), pc + 1, "{ }", "R1", "tracing::event! (test instrumentation, no subscriber installed by main) dropped")


# ----------------------------------------------------------------------------
# R3: iterator filter chains
# ----------------------------------------------------------------------------

FILTER_RE = r"(\w+)\s*\.iter\(\)\s*\.filter\s*\("


def _parse_filter(w, h):
    """h matches FILTER_RE; returns (recv, param, cond_text, close_paren_index)"""
    po = h.end() - 1
    pc = lexer.match_close(w.body, po)
    inner = w.body[po + 1:pc]
    m = re.match(r"\s*\|\s*&?\s*(\w+)\s*\|\s*", inner)
    if not m:
        raise LostAnchor("filter closure shape in %s" % w.qual())
    return h.group(1), m.group(1), inner[m.end():].strip(), pc


def r3_filter_count(w, helper_name, nth=0):
    """`E.iter().filter(|p| C).count()` -> `helper_name(E)`; returns (param, cond) so the unit can emit the
    helper whose body is a counting loop over the *real* condition text."""
    hits = [h for h in re.finditer(FILTER_RE, w.mbody)]
    cands = []
    for h in hits:
        recv, p, cond, pc = _parse_filter(w, h)
        m2 = re.compile(r"\s*\.count\(\)").match(w.mbody, pc + 1)
        if m2:
            cands.append((h, recv, p, cond, m2.end()))
    if nth >= len(cands):
        raise LostAnchor("filter(..).count() #%d not found in %s" % (nth, w.qual()))
    h, recv, p, cond, end = cands[nth]
    w.replace(h.start(), end, "%s(%s)" % (helper_name, recv), "R3", "filter(|%s| %s).count() -> counting loop helper" % (p, cond))
    return p, cond


def r3_for_filter(w, iter_name, invariants, nth=0, decreases=None):
    """`for x in E.iter().filter(|p| C) { B }` -> `for x in it: E.iter() invariant.. { if C[x/p] { B } }`"""
    cands = []
    for kw, s, e in w.loops():
        if kw != "for":
            continue
        ob = w.loop_open_brace(e)
        hdr = w.mbody[e:ob]
        fm = re.search(FILTER_RE, hdr)
        if fm:
            cands.append((s, e, ob))
    if nth >= len(cands):
        raise LostAnchor("for .. in ..iter().filter(..) #%d not found in %s" % (nth, w.qual()))
    s, e, ob = cands[nth]
    mm = re.compile(r"\s+(\w+)\s+in\s+").match(w.mbody, e)
    if not mm:
        raise LostAnchor("for header shape in %s" % w.qual())
    var = mm.group(1)
    h = re.compile(FILTER_RE).search(w.mbody, mm.end())
    recv, p, cond, pc = _parse_filter(w, h)
    if w.mbody[pc + 1:ob].strip() != "":
        raise LostAnchor("unexpected adapter after filter in %s" % w.qual())
    cond2 = re.sub(r"\b%s\b" % re.escape(p), var, cond)
    cb = lexer.match_close(w.body, ob)
    inv = inv_text(invariants, decreases)
    w.replace(mm.end(), ob, "%s: %s.iter()%s" % (iter_name, recv, inv), "R3",
              "for over filter(|%s| %s) -> for + if" % (p, cond))
    w.insert_at(ob + 1, " if %s {" % cond2, "R3", "filter condition as if")
    w.insert_at(cb, "} ", "R3", "close filter if")
    return var, cond2


# ----------------------------------------------------------------------------
# R4: `for x in E.iter() { .. continue; .. }`  ->  index while loop
# ----------------------------------------------------------------------------

def r4_for_to_while(w, nth, invariants, idx="__i"):
    ls = w.loops()
    kw, s, e = ls[nth]
    if kw != "for":
        raise LostAnchor("loop #%d in %s is not a for" % (nth, w.qual()))
    ob = w.loop_open_brace(e)
    hdr = w.body[e:ob]
    m = re.match(r"\s+(\w+)\s+in\s+(\w+)\s*\.iter\(\)\s*$", hdr)
    if not m:
        raise LostAnchor("for header %r in %s is not `x in E.iter()`" % (hdr.strip(), w.qual()))
    var, recv = m.group(1), m.group(2)
    cb = lexer.match_close(w.body, ob)
    inv = inv_text(invariants, "%s.len() - %s" % (recv, idx))
    w.replace(s, ob, "{ let mut %s: usize = 0; while %s < %s.len()%s" % (idx, idx, recv, inv), "R4",
              "for %s in %s.iter() with `continue` -> index while loop" % (var, recv))
    w.insert_at(ob + 1, " let %s = &%s[%s]; %s += 1;" % (var, recv, idx, idx), "R4", "element binding + increment")
    w.insert_at(cb + 1, " }", "R4", "close scope of loop index")
    return var, recv


# ----------------------------------------------------------------------------
# R5: format!
# ----------------------------------------------------------------------------

def r5_format(w, kinds=None, min_count=0):
    """`format!("a{}b", x)` -> fmt shim call with the real literal's pieces.
    kinds: {arg_text: 'u32'|'string'|'str'} (default 'string' => `.as_str()`)"""
    kinds = kinds or {}
    n = 0
    for h in re.finditer(r"\bformat!\s*\(", w.mbody):
        po = h.end() - 1
        pc = lexer.match_close(w.body, po)
        inner = w.body[po + 1:pc]
        parts = split_top_commas(inner)
        lit = inner[parts[0][0]:parts[0][1]]
        if not (lit.startswith('"') and lit.endswith('"')):
            raise LostAnchor("format! without plain literal in %s" % w.qual())
        pieces = lit[1:-1].split("{}")
        if "{" in "".join(pieces) or "}" in "".join(pieces):
            raise LostAnchor("format! with non-`{}` placeholder in %s" % w.qual())
        args = [inner[a:b] for a, b in parts[1:]]
        if len(args) != len(pieces) - 1:
            raise LostAnchor("format! placeholder/argument mismatch in %s" % w.qual())
        conv = []
        for a in args:
            k = kinds.get(a, "string")
            if k == "u32":
                conv.append("dec_u32(%s).as_str()" % a)
            elif k == "uuid":
                conv.append("tempshim::uuid_string(%s).as_str()" % a)
            elif k == "display":
                conv.append("tempshim::display_string(%s).as_str()" % a)
            elif k == "str":
                conv.append(a)
            else:
                conv.append("%s.as_str()" % a)
        seq = []
        for i, p in enumerate(pieces):
            seq.append('"%s"' % p)
            if i < len(args):
                seq.append(conv[i])
        w.replace(h.start(), pc + 1, "fmt_concat%d(%s)" % (len(seq), ", ".join(seq)), "R5",
                  "format!(%s) split at {} into %d literal pieces" % (lit, len(pieces)))
        n += 1
    if n < min_count:
        raise LostAnchor("expected >= %d format! in %s, found %d" % (min_count, w.qual(), n))
    return n


# ----------------------------------------------------------------------------
# R8: thread the ghost World through calls
# ----------------------------------------------------------------------------

def r8_thread(w, callee_patterns):
    """callee_patterns: list of regexes matching up to and including the `(` of a call."""
    n = 0
    for pat in callee_patterns:
        for h in re.finditer(pat, w.mbody):
            po = h.end() - 1
            if w.mbody[po] != "(":
                raise LostAnchor("R8 pattern %r must end at `(`" % pat)
            pc = lexer.match_close(w.body, po)
            inner = w.body[po + 1:pc]
            if inner.strip() == "":
                w.insert_at(pc, WORLD_ARG, "R8", "World arg")
            else:
                # keep trailing comma style
                if inner.rstrip().endswith(","):
                    w.insert_at(pc, " " + WORLD_ARG, "R8", "World arg")
                else:
                    w.insert_at(pc, ", " + WORLD_ARG, "R8", "World arg")
            n += 1
    return n


# ----------------------------------------------------------------------------
# R11: `a |= b;` on bools
# ----------------------------------------------------------------------------

def r11_or_assign(w):
    n = 0
    for h in re.finditer(r"(\w+)\s*\|=\s*([\w\.]+)\s*;", w.mbody):
        w.replace(h.start(), h.end(), "%s = %s || %s;" % (h.group(1), h.group(1), h.group(2)), "R11",
                  "`|=` on bool with side-effect-free right operand")
        n += 1
    return n


# ----------------------------------------------------------------------------
# R6 / R9: str operations
# ----------------------------------------------------------------------------

def r9_str_len(w, receivers):
    n = 0
    for r in receivers:
        for h in re.finditer(r"\b%s\s*\.chars\(\)\s*\.count\(\)" % re.escape(r), w.mbody):
            w.replace(h.start(), h.end(), "str_char_count(%s)" % r, "R9", "str::chars().count() via shim with char-count contract")
            n += 1
        for h in re.finditer(r"\b%s\.len\(\)" % re.escape(r), w.mbody):
            w.replace(h.start(), h.end(), "str_len(%s)" % r, "R9", "str::len via shim with byte-length contract")
            n += 1
    return n


def r6_str_slice(w, receivers):
    n = 0
    for r in receivers:
        for h in re.finditer(r"\b%s\[" % re.escape(r), w.mbody):
            if any(ed.s <= h.start() < ed.e for ed in w.edits):
                continue
            po = h.end() - 1
            pc = lexer.match_close(w.body, po)
            inner = w.body[po + 1:pc]
            if ".." not in inner:
                continue
            a, b = inner.split("..", 1)
            a = a.strip() or "0"
            b = b.strip() or "str_len(%s)" % r
            # drop a leading & (the shim returns &str)
            s = h.start()
            if s > 0 and w.body[s - 1] == "&":
                s -= 1
            w.replace(s, pc + 1, "str_slice(%s, %s, %s)" % (r, a, b), "R6", "str range index -> shim with char-boundary precondition")
            n += 1
    return n


# ----------------------------------------------------------------------------
# R9: the run's single ID counter
# ----------------------------------------------------------------------------

def r9_counter(w):
    """`let x = C.fetch_add(n, ORD);` -> followed by the sequential-counter axiom.
    `C.fetch_update(ORD, ORD, |v| EXPR)` -> `counter_fetch_update(C, Tracked(w))`; returns the closure (param, EXPR)
    texts so the unit can emit a helper proving what the closure computes."""
    closures = []
    for h in re.finditer(r"let\s+(\w+)\s*=\s*(\w+)\s*\.fetch_add\(\s*(\w+)\s*,", w.mbody):
        end = lexer.stmt_end(w.body, h.start())
        w.insert_at(end, " proof { axiom_fetch_add(w, %s, %s); }" % (h.group(1), h.group(3)), "R9", "sequential counter axiom after fetch_add")
    for h in re.finditer(r"(\w+)\s*\.fetch_update\s*\(", w.mbody):
        po = h.end() - 1
        pc = lexer.match_close(w.body, po)
        inner = w.body[po + 1:pc]
        parts = split_top_commas(inner)
        if len(parts) != 3:
            raise LostAnchor("fetch_update argument shape in %s" % w.qual())
        clo = inner[parts[2][0]:parts[2][1]]
        m = re.match(r"\|\s*(\w+)\s*\|\s*(.+)$", clo, re.S)
        if not m:
            raise LostAnchor("fetch_update closure shape in %s" % w.qual())
        closures.append((m.group(1), m.group(2).strip()))
        w.replace(h.start(), pc + 1, "counter_fetch_update(%s, Tracked(w))" % h.group(1), "R9",
                  "AtomicU32::fetch_update(|%s| %s) -> sequential-counter shim; the closure body is verified as a helper" % (m.group(1), m.group(2).strip()))
    return closures


# ----------------------------------------------------------------------------
# R2: task::block_on(async { B })  ->  task::block_on(lifted(captures..)) + `async fn lifted(captures..) { B }`
# ----------------------------------------------------------------------------

def r2_lift_block_on(w, unit, lifted_name, captures, ret_type, world=True, props=()):
    """captures: [(name, type_text)].  Returns the Woven of the lifted async fn (already appended to the unit)."""
    from .weaver import Woven, Extracted
    h = re.search(r"\btask::block_on\s*\(\s*async(\s+move)?\s*\{", w.mbody)
    if not h or len(re.findall(r"\btask::block_on\s*\(", w.mbody)) != 1:
        raise LostAnchor("task::block_on(async { .. }) not found exactly once in %s" % w.qual())
    ob = h.end() - 1
    cb = lexer.match_close(w.body, ob)
    m2 = re.compile(r"\s*\)").match(w.mbody, cb + 1)
    if not m2:
        raise LostAnchor("block_on shape in %s" % w.qual())
    block = w.body[ob:cb + 1]
    for name, _ in captures:
        if not re.search(r"\b%s\b" % re.escape(name), lexer.mask(block)):
            raise LostAnchor("capture %s not used in the async block of %s" % (name, w.qual()))
    args = ", ".join(n for n, _ in captures) + (", " + WORLD_ARG if world else "")
    po = w.mbody.index("(", h.start())
    w.replace(po + 1, cb + 1, "%s(%s)" % (lifted_name, args), "R2", "async block lifted to async fn %s (captures: %s)" % (lifted_name, ", ".join(n for n, _ in captures)))
    ex = w.ex
    sub = Extracted(ex.rel, ex.file_text, ex.body_open + ob, ex.body_open + ob, ex.body_open + ob, ex.body_open + cb)
    sub.line = lexer.line_of(ex.file_text, ex.body_open + ob)
    params = ", ".join("%s: %s" % (n, t) for n, t in captures)
    sub.header = "async fn %s(%s) -> %s" % (lifted_name, params, ret_type)
    lw = Woven(sub, unit)
    lw.emit_name = lifted_name
    lw.owner = getattr(w, "owner", None)
    lw.props = set(props or w.props)
    lw.applied.append(("R2", "body of the async block passed to task::block_on in %s" % w.qual()))
    unit.fns.append(lw)
    unit.chunks.append(("fn", lw))
    return lw


def r10_mono(w, mapping):
    """R10: substitute generic names (`ProcessorType::` -> concrete) in the body."""
    n = 0
    for gen, conc in mapping.items():
        for h in re.finditer(r"\b%s\b" % re.escape(gen), w.mbody):
            w.replace(h.start(), h.end(), conc, "R10", "monomorphised %s := %s" % (gen, conc))
            n += 1
    return n


def r9_stop_poll(w, receivers):
    """`X.load(Ordering::Relaxed)` on the stop flag -> stop_poll(&X, Tracked(w)) (nondeterministic, records stop_seen)."""
    n = 0
    for r in receivers:
        for h in re.finditer(r"(?<![\w\.])%s\s*\.load\s*\(" % re.escape(r).replace(r"\.", r"\s*\.\s*"), w.mbody):
            if any(ed.s <= h.start() < ed.e for ed in w.edits):
                continue
            po = h.end() - 1
            pc = lexer.match_close(w.body, po)
            w.replace(h.start(), pc + 1, "stop_poll(&%s, Tracked(w))" % r, "R9", "stop flag poll: nondeterministic value, recorded in ghost stop_seen")
            n += 1
    return n


# ----------------------------------------------------------------------------
# R13: std::path / std::fs re-rooted to the shim module (single-file mode cannot shadow `std`)
# ----------------------------------------------------------------------------

def r13_reroot(w, mapping):
    n = 0
    for src, dst in mapping.items():
        for h in re.finditer(r"(?<![\w:])%s" % re.escape(src), w.mbody):
            if any(ed.s <= h.start() < ed.e for ed in w.edits):
                continue
            w.replace(h.start(), h.end(), dst, "R13", "%s re-rooted to shim module %s" % (src, dst))
            n += 1
    return n


def r9_method_to_fn(w, method, fn_name, by_mut=False, arg_map=None):
    """`RECV.method(ARGS)` -> `fn_name(&RECV, ARGS)` for std methods without a Verus specification (RECV = dotted path)."""
    n = 0
    for h in re.finditer(r"((?:\w+\s*\.\s*)*\w+)\s*\.\s*%s\s*\(" % re.escape(method), w.mbody):
        po = h.end() - 1
        pc = lexer.match_close(w.body, po)
        recv = re.sub(r"\s+", "", h.group(1))
        args = w.body[po + 1:pc].strip()
        for a, b in (arg_map or {}).items():
            args = args.replace(a, b)
        w.replace(h.start(), pc + 1, "%s(&%s%s%s)" % (fn_name, "mut " if by_mut else "", recv, (", " + args) if args else ""), "R9",
                  "std method `%s` without Verus spec -> shim fn %s" % (method, fn_name))
        n += 1
    return n


# ----------------------------------------------------------------------------
# R12 (walkdir form): for x in WalkDir::new(D).into_iter().filter_map(|e| e.ok()).filter(|p| C) { B }
#   -> { let mut __it = walk_ok_entries(D, Tracked(w)); loop inv.. { let x = match __it.next() { Some(v) => v, None => break };
#        if !(C[x/p]) { continue; } B } }
# ----------------------------------------------------------------------------

def r12_walk(w, invariants, decreases="__it.rest().len()", ensures=("__it.rest().len() == 0",)):
    cands = []
    for kw, s, e in w.loops():
        if kw != "for":
            continue
        ob = w.loop_open_brace(e)
        if "WalkDir::new" in w.mbody[e:ob]:
            cands.append((s, e, ob))
    if len(cands) != 1:
        raise LostAnchor("for .. in WalkDir::new(..) not found exactly once in %s" % w.qual())
    s, e, ob = cands[0]
    hdr = w.body[e:ob]
    m = re.match(r"\s+(\w+)\s+in\s+WalkDir::new\(\s*(.+?)\s*\)\s*((?:\.follow_links\(\s*\w+\s*\)\s*)?)\.into_iter\(\)\s*\.filter_map\(\s*\|(\w+)\|\s*(\w+)\.ok\(\)\s*\)\s*\.filter\(\s*\|(\w+)\|\s*(.+?)\s*\)\s*$", hdr, re.S)
    if not m or m.group(4) != m.group(5):
        raise LostAnchor("WalkDir iterator chain shape changed in %s: %r" % (w.qual(), hdr.strip()))
    var, dirx, builder, _, _, p, cond = m.groups()
    follow = "false"
    if builder.strip():
        follow = re.search(r"\(\s*(\w+)\s*\)", builder).group(1)
    cond2 = re.sub(r"\b%s\b" % re.escape(p), var, cond)
    cb = lexer.match_close(w.body, ob)
    inv = inv_text(invariants, decreases, list(ensures))
    w.replace(s, ob, "{ let mut __it = walk_ok_entries(%s, %s, Tracked(w)); loop%s" % (dirx, follow, inv), "R12",
              "for over WalkDir::new(%s)..filter_map(ok).filter(|%s| %s) -> loop over the iterator shim" % (dirx, p, cond))
    w.insert_at(ob + 1, " let %s = match __it.next() { Some(v) => v, None => break }; if !(%s) { continue; }" % (var, cond2), "R12",
                "element binding; filter condition from the real closure")
    w.insert_at(cb + 1, " }", "R12", "close iterator scope")
    return var, dirx, cond2


# ----------------------------------------------------------------------------
# R12 (pest form): `for x in E { B }` with E a pest `Pairs`  ->  rustc's own desugaring
#   { let mut IT = E; loop inv.. { let x = match IT.next() { Some(v) => v, None => break }; B } }
# ----------------------------------------------------------------------------

def r12_pairs(w, kw_start, itname, invariants, ensures=None, decreases=None):
    """kw_start: offset of the `for` keyword (use w.loops()); the loop must be `for IDENT in EXPR {`."""
    ls = [l for l in w.loops() if l[1] == kw_start]
    if not ls or ls[0][0] != "for":
        raise LostAnchor("r12_pairs: no for loop at %d in %s" % (kw_start, w.qual()))
    kw, s, e = ls[0]
    ob = w.loop_open_brace(e)
    m = re.match(r"\s+(\w+)\s+in\s+(.+?)\s*$", w.body[e:ob], re.S)
    if not m:
        raise LostAnchor("for header shape in %s" % w.qual())
    var, expr = m.group(1), m.group(2)
    cb = lexer.match_close(w.body, ob)
    inv = inv_text(invariants, decreases or "%s.rest().len()" % itname, list(ensures or ["%s.rest().len() == 0" % itname]))
    w.replace(s, ob, "{ let mut %s = %s; loop%s" % (itname, expr, inv), "R12", "for %s in %s (pest Pairs) -> loop over next()" % (var, expr))
    w.insert_at(ob + 1, " let %s = match %s.next() { Some(v) => v, None => break };" % (var, itname), "R12", "element binding")
    w.insert_at(cb + 1, " }", "R12", "close iterator scope")
    return var, expr


def for_loops_over(w, expr_re):
    """offsets of `for` keywords whose header matches expr_re (on masked text)"""
    out = []
    for kw, s, e in w.loops():
        if kw != "for":
            continue
        ob = w.loop_open_brace(e)
        if re.search(expr_re, w.mbody[e:ob]):
            out.append(s)
    return out


def r_lazy_static(w):
    """`lazy_static! { static ref NAME: Regex = Regex::new(r"PAT").unwrap(); }` inside a fn body is removed; uses of
    `&NAME` become `NAME_shim()`.  Returns [(NAME, pattern_literal_text)] so the unit can emit the shim with the real pattern."""
    out = []
    for h in re.finditer(r"lazy_static!\s*\{", w.mbody):
        ob = h.end() - 1
        cb = lexer.match_close(w.body, ob)
        inner = w.body[ob + 1:cb]
        m = re.match(r'\s*static\s+ref\s+(\w+)\s*:\s*(\w+)\s*=\s*(.+?);\s*$', inner, re.S)
        if not m:
            raise LostAnchor("lazy_static shape in %s" % w.qual())
        name, typ, init = m.group(1), m.group(2), m.group(3).strip()
        out.append((name, typ, init))
        w.replace(h.start(), cb + 1, "", "R9", "lazy_static %s: %s hoisted to a shim accessor" % (name, typ))
    for name, typ, init in out:
        for h in re.finditer(r"&\s*%s\b" % re.escape(name), w.mbody):
            if any(ed.s <= h.start() < ed.e for ed in w.edits):
                continue
            w.replace(h.start(), h.end(), "%s_shim()" % name, "R9", "lazy static %s read through its shim accessor" % name)
        for h in re.finditer(r"(?<![&\w])%s\s*\.(\w+)\(" % re.escape(name), w.mbody):
            w.replace(h.start(), h.start() + len(name), "%s_shim()" % name, "R9", "lazy static %s read through its shim accessor" % name)
    return out


def r_last_mut_set(w):
    """`match V.last_mut() { None => continue, Some((_, X)) => { *X = E; }, }` -> if V.len() == 0 { continue; } else { set second component of the last element }"""
    n = 0
    for h in re.finditer(r"match\s+(\w+)\.last_mut\(\)\s*\{", w.mbody):
        v = h.group(1)
        ob = h.end() - 1
        cb = lexer.match_close(w.body, ob)
        inner = w.body[ob + 1:cb]
        m = re.match(r"\s*None\s*=>\s*continue\s*,\s*Some\(\(\s*_\s*,\s*(\w+)\s*\)\)\s*=>\s*\{\s*\*\1\s*=\s*(.+?);\s*\}\s*,?\s*$", inner, re.S)
        if not m:
            raise LostAnchor("last_mut match shape in %s" % w.qual())
        expr = m.group(2)
        w.replace(h.start(), cb + 1,
                  "if %s.len() == 0 { continue; } else { let __n = %s.len() - 1; let __k = %s[__n].0; %s.set(__n, (__k, %s)); }" % (v, v, v, v, expr),
                  "R14", "match %s.last_mut() { None => continue, Some((_, x)) => *x = E } -> indexed update of the last element (Copy tuple)" % v)
        n += 1
    return n


def r_for_tuple_vec(w, kw_start, invariants, idx="__k", ensures=None, except_break=None):
    """`for (a, b) in V { B }` over a Vec of Copy tuples -> index while loop (`continue`/`break` keep their meaning)."""
    ls = [l for l in w.loops() if l[1] == kw_start]
    kw, s, e = ls[0]
    ob = w.loop_open_brace(e)
    m = re.match(r"\s+\(\s*(\w+)\s*,\s*(\w+)\s*\)\s+in\s+(\w+)\s*$", w.body[e:ob], re.S)
    if not m:
        raise LostAnchor("for (a, b) in V shape in %s" % w.qual())
    a, b, v = m.groups()
    cb = lexer.match_close(w.body, ob)
    inv = inv_text(invariants, "%s.len() - %s" % (v, idx), ensures, except_break)
    w.replace(s, ob, "{ let mut %s: usize = 0; while %s < %s.len()%s" % (idx, idx, v, inv), "R4", "for (%s, %s) in %s -> index while loop" % (a, b, v))
    w.insert_at(ob + 1, " let (%s, %s) = %s[%s]; %s += 1;" % (a, b, v, idx, idx), "R4", "element binding + increment")
    w.insert_at(cb + 1, " }", "R4", "close scope of loop index")
    return a, b, v


def r_parse_u32(w):
    n = 0
    for h in re.finditer(r"((?:\w+\s*\.\s*)*\w+(?:\(\))?(?:\[[^\]]*\])?)\s*\.parse::<u32>\(\)", w.mbody):
        recv = re.sub(r"\s+", "", h.group(1))
        w.replace(h.start(), h.end(), "str_parse_u32(%s)" % recv, "R9", "str::parse::<u32> via shim (contract: canonical u32 parse)")
        n += 1
    return n


# ----------------------------------------------------------------------------
# R16: `S[A..].chars().next().map_or(D, |c| B)`  ->  match on the first character (Option::map_or with a closure, desugared)
# ----------------------------------------------------------------------------

def r16_first_char_map_or(w):
    n = 0
    for h in re.finditer(r"(\w+)\[\s*(\w+)\s*\.\.\s*\]\s*\.chars\(\)\s*\.next\(\)\s*\.map_or\s*\(", w.mbody):
        po = h.end() - 1
        pc = lexer.match_close(w.body, po)
        inner = w.body[po + 1:pc]
        parts = split_top_commas(inner)
        if len(parts) != 2:
            raise LostAnchor("map_or argument shape in %s" % w.qual())
        dflt = inner[parts[0][0]:parts[0][1]]
        clo = inner[parts[1][0]:parts[1][1]]
        m = re.match(r"\|\s*(\w+)\s*\|\s*(.+)$", clo, re.S)
        if not m:
            raise LostAnchor("map_or closure shape in %s" % w.qual())
        w.replace(h.start(), pc + 1, "match str_first_char(%s, %s) { None => %s, Some(%s) => %s }" % (h.group(1), h.group(2), dflt, m.group(1), m.group(2).strip()),
                  "R16", "first-char + Option::map_or(closure) desugared to a match; closure body kept verbatim")
        n += 1
    return n


def r_for_vec_shim(w, kw_start, vec_expr_fn, invariants, idx, ensures=None, except_break=None):
    """`for x in EXPR { B }` where EXPR is an iterator chain without a Verus spec: iterate over the Vec returned by a shim instead.
    vec_expr_fn(header_expr_text) -> replacement expression yielding a Vec (raises LostAnchor if the chain is not the expected one)."""
    ls = [l for l in w.loops() if l[1] == kw_start]
    kw, s, e = ls[0]
    ob = w.loop_open_brace(e)
    m = re.match(r"\s+(\w+)\s+in\s+(.+?)\s*$", w.body[e:ob], re.S)
    if not m:
        raise LostAnchor("for header shape in %s" % w.qual())
    var, expr = m.group(1), m.group(2)
    vec = vec_expr_fn(expr)
    cb = lexer.match_close(w.body, ob)
    vname = "__v" + idx.strip("_")
    inv = inv_text(invariants, "%s.len() - %s" % (vname, idx), ensures, except_break)
    w.replace(s, ob, "{ let %s = %s; let mut %s: usize = 0; while %s < %s.len()%s" % (vname, vec, idx, idx, vname, inv), "R12",
              "for %s in %s -> index loop over the collected sequence" % (var, expr))
    w.insert_at(ob + 1, " let %s = %s[%s]; %s += 1;" % (var, vname, idx, idx), "R12", "element binding + increment")
    w.insert_at(cb + 1, " }", "R12", "close scope")
    return var, vname


# ----------------------------------------------------------------------------
# R16 (general): `RECV.map_or(D, |v| B)`  ->  `(match RECV { Some(v) => B, None => D })`
# (Option::map_or with a closure has no Verus specification; this is its definition.  D is evaluated eagerly by map_or:
#  the rewrite is applied only when D is a literal, a path or a field access, i.e. free of side effects.)
# ----------------------------------------------------------------------------

def _receiver_start(w, dot):
    """start offset of the postfix expression that ends just before the `.` at offset dot"""
    m = w.mbody
    i = dot - 1
    while i >= 0 and m[i] in " \t\r\n":
        i -= 1
    while i >= 0:
        ch = m[i]
        if ch in ")]":
            depth = 0
            j = i
            while j >= 0:
                if m[j] in ")]":
                    depth += 1
                elif m[j] in "([":
                    depth -= 1
                    if depth == 0:
                        break
                j -= 1
            i = j - 1
            while i >= 0 and m[i] in " \t\r\n":
                i -= 1
            # a call / index: the callee name (if any) precedes the bracket
            if i >= 0 and (m[i].isalnum() or m[i] == "_" or m[i] in ")]"):
                continue
        elif ch.isalnum() or ch == "_":
            while i >= 0 and (m[i].isalnum() or m[i] == "_"):
                i -= 1
        else:
            break
        # continue through `.`, `::`, `?`, whitespace between chain elements
        k = i
        while k >= 0 and m[k] in " \t\r\n":
            k -= 1
        if k >= 0 and m[k] == ".":
            i = k - 1
            while i >= 0 and m[i] in " \t\r\n":
                i -= 1
            continue
        if k >= 1 and m[k - 1:k + 1] == "::":
            i = k - 2
            continue
        break
    return i + 1


def r16_map_or(w, inner_subst=None):
    """inner_subst: [(regex, replacement)] applied to the receiver / closure body / default text placed into the match
    (rewrites that other rules would have applied inside the replaced span)"""
    n = 0
    for h in re.finditer(r"\.\s*map_or\s*\(", w.mbody):
        if any(ed.s <= h.start() < ed.e for ed in w.edits):
            continue
        po = h.end() - 1
        pc = lexer.match_close(w.body, po)
        inner = w.body[po + 1:pc]
        parts = split_top_commas(inner)
        if len(parts) != 2:
            continue
        dflt = inner[parts[0][0]:parts[0][1]].strip()
        clo = inner[parts[1][0]:parts[1][1]]
        m = re.match(r"\|\s*(\w+)\s*\|\s*(.+)$", clo, re.S)
        if not m or not re.match(r"^[\w\.:\"' ]+$", dflt):
            continue
        rs = _receiver_start(w, h.start())
        if any(not (rs >= ed.e or h.start() <= ed.s) for ed in w.edits):
            continue
        recv = w.body[rs:h.start()]
        body_txt = m.group(2).strip()
        for rx, rep in (inner_subst or []):
            recv = re.sub(rx, rep, recv)
            body_txt = re.sub(rx, rep, body_txt)
        w.replace(rs, pc + 1, "(match %s { Some(%s) => %s, None => %s })" % (recv.strip(), m.group(1), body_txt, dflt), "R16",
                  "Option::map_or(%s, |%s| ..) desugared to a match" % (dflt, m.group(1)))
        n += 1
    return n
