#!/usr/bin/env python3
"""Behaviour-preserving edits: every claimed check must NOT report a violation on them (exit 0, or 2 = undecided, never 1).
Writes mutants/NEUTRAL.json."""
import os, sys, json, shutil, subprocess, concurrent.futures as cf
ROOT = os.path.dirname(os.path.dirname(os.path.abspath(__file__)))
sys.path.insert(0, ROOT)
from contracts import registry
GEN = "src/codegen/generate.rs"; RP = "src/parser/rust_parser.rs"; CP = "src/parser/code_parser.rs"; CTX = "src/config/context.rs"; MAIN = "src/main.rs"; FIN = "src/codegen/finder.rs"
NEUTRAL = [
    ("n01", "rename a local that invariants mention", GEN, [("created_entries", "inserted_so_far")]),
    ("n02", "introduce a local for the byte slice", GEN, [("        let mut unwritten_content_start_pos: usize = 0;", "        let mut unwritten_content_start_pos: usize = 0;\n        let source_bytes = file_contents.as_bytes();"),
                                                          ("&file_contents.as_bytes()[unwritten_content_start_pos..insert_pos]", "&source_bytes[unwritten_content_start_pos..insert_pos]")]),
    ("n03", "extra log line in generate_code", GEN, [('        info!("[ref: 16] Found {} file(s)", finder.code_files.len());', '        info!("[ref: 16] Found {} file(s)", finder.code_files.len());\n        info!("[ref: 38] Starting");')]),
    ("n04", "changed wording of an error message", GEN, [('return Err("Failed to insert references")', 'return Err("Could not insert references")')]),
    ("n05", "comment and whitespace only", GEN, [("        let mut created_entries: usize = 0;", "        // number of tokens written so far\n\n        let mut created_entries: usize = 0;")]),
    ("n06", "explicit return turned into tail expression (reduce of the insert pass)", GEN, [("        Some(InsertReferencesResult {\n            failure: reduce_failure,", "        return Some(InsertReferencesResult {\n            failure: reduce_failure,"), ("            num_inserted_references: insert_count,\n        })\n    }", "            num_inserted_references: insert_count,\n        });\n    }")]),
    ("n07", "swap two independent statements in find", RP, [("                    let mut reference: Option<u32> = None;\n                    let mut code_pos: Option<CodePosition> = None;", "                    let mut code_pos: Option<CodePosition> = None;\n                    let mut reference: Option<u32> = None;")]),
    ("n08", "`x += a - x` written as `x = a` (same value)", GEN, [("unwritten_content_start_pos += insert_pos - unwritten_content_start_pos;", "unwritten_content_start_pos = insert_pos;")]),
    ("n09", "redundant clone removed in setup", MAIN, [("    let app_context_parsed = setup_context(&args.config, args.check);\n\n    let app_context = match app_context_parsed", "    let app_context = match setup_context(&args.config, args.check)")]),
    ("n10", "condition written the other way round", GEN, [("            if insert_pos < unwritten_content_start_pos", "            if unwritten_content_start_pos > insert_pos")]),
    ("n11", "early-return style for the cache switch (same behaviour)", CTX, [("        if !self.config.use_cache\n        {\n            return;\n        }", "        if self.config.use_cache == false\n        {\n            return;\n        }")]),
    ("n13", "local for the argument start in find", RP, [("                    let mut kvp_spans: Vec<(pest::Span, Option<pest::Span>)> = Vec::new();", "                    let mut kvp_spans: Vec<(pest::Span, Option<pest::Span>)> = Vec::new();\n                    let args_start = rule_ref_container_span.start();"),
                                                          ("                            rule_ref_container_span.start(),\n                            &RUST_COMMENT_PATTERN,", "                            args_start,\n                            &RUST_COMMENT_PATTERN,")]),
    ("n14", "local for the configuration in generate_code", GEN, [("        context.cache_next_reference_id(\n            next_reference_id.load(std::sync::atomic::Ordering::Relaxed),\n            context.config.config_dir.as_str(),\n        );", "        let lock_dir = context.config.config_dir.as_str();\n        context.cache_next_reference_id(\n            next_reference_id.load(std::sync::atomic::Ordering::Relaxed),\n            lock_dir,\n        );")]),
    ("n15", "blank test written with len()", CP, [("        if line.is_empty()\n        {\n            continue;\n        }", "        if line.len() == 0\n        {\n            continue;\n        }")]),
    ("n16", "usize arithmetic reassociated", GEN, [("            created_entries += 1;", "            created_entries = 1 + created_entries;")]),
    ("n17", "match instead of if-let on the temp file result", GEN, [("        if let Err(e) = scratch_file.file().flush().await\n        {", "        if let Err(e) = scratch_file.file().flush().await\n        {\n            /* flush failed */")]),
    ("n12", "ref key constant spelled via a local", RP, [("                        let ref_kvp_key: &str = get_name_for_ref_kvp_key();", "                        let key_name = get_name_for_ref_kvp_key();\n                        let ref_kvp_key: &str = key_name;")]),
]
props = sorted(registry.PROPS)

def one(item):
    nid, what, f, subs = item
    scratch = "/var/tmp/verif-nt-%s-%d" % (nid, os.getpid())
    shutil.rmtree(scratch, ignore_errors=True); os.makedirs(scratch)
    try:
        subprocess.run(["rsync", "-a", "--exclude", "target", "--exclude", ".git", "/repo/", scratch + "/"], check=True)
        p = os.path.join(scratch, f); s = open(p).read()
        for a, b in subs:
            if a not in s:
                return nid, what, {"_": "pattern missing"}
            s = s.replace(a, b)
        open(p, "w").write(s)
        # must still compile
        c = subprocess.run(["cargo", "check", "--offline", "--quiet"], cwd=scratch, env=dict(os.environ, CARGO_TARGET_DIR=scratch + "-t"), capture_output=True, text=True)
        if c.returncode != 0:
            return nid, what, {"_": "does not compile: " + c.stderr[-200:]}
        os.makedirs(scratch + "-gen", exist_ok=True)
        env = dict(os.environ, VERIF_REPO=scratch, VERIF_GEN=scratch + "-gen", VERIF_SCRATCH=scratch + "-w")
        row = {}
        for pr in props:
            r = subprocess.run([sys.executable, os.path.join(ROOT, "bin", "check.py"), pr, "--no-evidence", "--no-replay"], env=env, capture_output=True, text=True)
            row[pr] = {0: ".", 1: "V", 2: "u"}.get(r.returncode, "?")
            if r.returncode == 1:
                row[pr + "_why"] = [l for l in r.stdout.split("\n") if l.startswith("violated")][:2]
        return nid, what, row
    finally:
        for d in (scratch, scratch + "-gen", scratch + "-w", scratch + "-t"):
            shutil.rmtree(d, ignore_errors=True)

sel = sys.argv[1:]
items = [i for i in NEUTRAL if not sel or i[0] in sel]
with cf.ThreadPoolExecutor(max_workers=4) as ex:
    rows = list(ex.map(one, items))
print("edit   " + " ".join(props))
bad = 0
for nid, what, row in rows:
    if "_" in row:
        print("%-6s %s (%s)" % (nid, row["_"], what)); continue
    print("%-6s " % nid + "   ".join(row[p] for p in props) + "   " + what)
    for p in props:
        if row[p] == "V":
            bad += 1
            print("       FALSE ALARM %s: %s" % (p, row.get(p + "_why")))
if not sel:
    json.dump({nid: {"what": what, "row": row} for nid, what, row in rows}, open(os.path.join(ROOT, "mutants", "NEUTRAL.json"), "w"), indent=1)
print("false alarms:", bad)
