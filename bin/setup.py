#!/usr/bin/env python3
"""setup: byte-compile the framework and warm Verus (first run loads vstd: 5-9 s). Offline; needs only /verif and installed tools."""
import os, sys, subprocess, compileall
ROOT = os.path.dirname(os.path.dirname(os.path.abspath(__file__)))
os.chdir(ROOT)
ok = all(compileall.compile_dir(d, quiet=1) for d in ("weave", "contracts", "bin", "replay"))
os.makedirs("generated", exist_ok=True)
os.makedirs("evidence", exist_ok=True)
os.makedirs("replays", exist_ok=True)
p = os.path.join("generated", "_warm.rs")
open(p, "w").write("use vstd::prelude::*;\nverus! { proof fn warm() ensures 1 + 1 == 2int {} }\nfn main() {}\n")
r = subprocess.run(["verus", p], capture_output=True, text=True)
print(r.stdout.strip()[-200:])
sys.exit(0 if ok and r.returncode == 0 else 1)
