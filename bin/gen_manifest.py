#!/usr/bin/env python3
"""Writes MANIFEST.json from contracts/registry.py (single source of truth for what is claimed)."""
import os, sys, json
ROOT = os.path.dirname(os.path.dirname(os.path.abspath(__file__)))
sys.path.insert(0, ROOT)
from contracts import registry

checks = []
for pid in sorted(registry.PROPS):
    sp = registry.PROPS[pid]
    checks.append({
        "property_id": pid,
        "quick_cmd": "python3 bin/check.py %s --tier quick" % pid,
        "thorough_cmd": "python3 bin/check.py %s --tier thorough" % pid,
        "evidence_file": "/verif/evidence/%s.json" % pid,
        "replay_cmd_template": "python3 bin/check.py %s --replay {path}" % pid,
        "engine": "weave+verus",
        "level_claimed": {"category": sp.get("level", "proof"), "text": sp.get("level_text", ""), "design_ref": sp.get("design_ref", "DESIGN.md §5 %s" % pid)},
        "level_note": sp.get("level_note", ""),
        "technique": sp.get("technique") or ("contract-based deductive verification: Verus discharges contracts woven into the real functions extracted from /repo on every run"),
    })
na = [{"property_id": k, "reason": v} for k, v in sorted(registry.NOT_APPLICABLE.items())]
m = {
    "version": 1,
    "setup_cmd": "python3 bin/setup.py",
    "hooks": {
        "guard": "none",
        "enable": "no hooks: functions are extracted from /repo's working tree on every run; Kani harnesses are appended to scratch copies under cfg(kani)",
        "baseline_off_cmd": "cd /repo && (cargo nextest run --workspace --no-fail-fast --offline || cargo test --workspace --no-fail-fast --offline)",
        "source_commits": [],
        "add_only": True,
    },
    "engines": [
        {"name": "weave+verus", "path": "/verif/bin/check.py", "serves_properties": sorted(registry.PROPS),
         "kind_free_text": "extract real functions -> weave contracts (contracts/*.py, shims/, spec/) -> verus single-file; vacuity canary copies; labels map failures to properties"},
    ],
    "checks": checks,
    "not_applicable": na,
    "notes": registry.NOTES,
}
with open(os.path.join(ROOT, "MANIFEST.json"), "w") as f:
    json.dump(m, f, indent=1)
print("MANIFEST.json: %d checks, %d not applicable" % (len(checks), len(na)))
