#!/usr/bin/env python3
"""cross-property matrix: for selected mutants run EVERY claimed check and list which properties raise an alarm
(used to look for over-attribution = alarms for properties the change does not break)."""
import os, sys, json, shutil, subprocess, concurrent.futures as cf
ROOT = os.path.dirname(os.path.dirname(os.path.abspath(__file__)))
sys.path.insert(0, os.path.join(ROOT, "bin")); sys.path.insert(0, ROOT)
import run_mutants as rm
from contracts import registry
ids = sys.argv[1:] or ["m01", "m07", "m11", "m14", "m17", "m22", "m25", "m37"]
props = sorted(registry.PROPS)

def one(mid):
    m = [x for x in rm.MUTANTS if x[0] == mid][0]
    scratch = "/var/tmp/verif-mx-%s-%d" % (mid, os.getpid())
    shutil.rmtree(scratch, ignore_errors=True); os.makedirs(scratch)
    try:
        subprocess.run(["rsync", "-a", "--exclude", "target", "--exclude", ".git", "/repo/", scratch + "/"], check=True)
        p = os.path.join(scratch, m[2]); s = open(p).read(); open(p, "w").write(s.replace(m[3], m[4]))
        os.makedirs(scratch + "-gen", exist_ok=True)
        env = dict(os.environ, VERIF_REPO=scratch, VERIF_GEN=scratch + "-gen", VERIF_SCRATCH=scratch + "-w")
        row = {}
        for pr in props:
            r = subprocess.run([sys.executable, os.path.join(ROOT, "bin", "check.py"), pr, "--no-evidence", "--no-replay"], env=env, capture_output=True, text=True)
            row[pr] = {0: ".", 1: "V", 2: "u"}.get(r.returncode, "?")
        return mid, m[1], row
    finally:
        for d in (scratch, scratch + "-gen", scratch + "-w"):
            shutil.rmtree(d, ignore_errors=True)

with cf.ThreadPoolExecutor(max_workers=4) as ex:
    rows = list(ex.map(one, ids))
print("mutant target " + " ".join(props))
for mid, tgt, row in rows:
    print("%-6s %-5s  " % (mid, tgt) + "   ".join(row[p] for p in props))
json.dump({mid: {"target": tgt, "row": row} for mid, tgt, row in rows}, open(os.path.join(ROOT, "mutants", "MATRIX.json"), "w"), indent=1)
