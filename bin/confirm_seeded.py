#!/usr/bin/env python3
"""confirm_seeded.py <prop> <n> <worktree> — re-confirm a sub-agent's seeded change myself and store it under /verif/seeded/<prop>-<n>/:
applies to the worktree, full test suite passes, demo fails with the change and passes without."""
import os, sys, json, subprocess, shutil, glob, time
prop, n, wt = sys.argv[1], sys.argv[2], sys.argv[3]
src = os.path.join(wt, "out", n)
dst = "/verif/seeded/%s" % n if n.startswith(prop) else "/verif/seeded/%s-%s" % (prop, n)
os.makedirs(dst, exist_ok=True)
env = dict(os.environ, CARGO_TARGET_DIR=os.path.join(wt, "target"), CARGO_NET_OFFLINE="true")
def run(cmd, timeout=3600):
    t0 = time.time()
    r = subprocess.run(cmd, shell=True, cwd=wt, env=env, capture_output=True, text=True, timeout=timeout)
    return r.returncode, (r.stdout + r.stderr)[-3000:], round(time.time() - t0, 1)
demo = None
for cand in ("demo.sh", "demo.py"):
    if os.path.exists(os.path.join(src, cand)):
        demo = cand
democmd = ("bash " if demo.endswith(".sh") else "python3 ") + os.path.join(src, demo)
meta = {"property": prop, "source": "independent sub-agent given only the property text and its own worktree", "ran": []}
run("git checkout -- . && git clean -fdq -e out -e target")
rc, out, t = run("git apply " + os.path.join(src, "patch.diff"))
meta["ran"].append({"cmd": "git apply patch.diff", "rc": rc})
rc_t, out_t, t = run("cargo nextest run --workspace --no-fail-fast --offline 2>&1 | tail -5")
meta["ran"].append({"cmd": "cargo nextest run --workspace --no-fail-fast --offline (with change)", "rc": rc_t, "tail": out_t[-600:], "s": t})
rc_w, out_w, t = run(democmd)
meta["ran"].append({"cmd": democmd + " (with change)", "rc": rc_w, "tail": out_w[-800:], "s": t})
run("git checkout -- .")
rc_o, out_o, t = run(democmd)
meta["ran"].append({"cmd": democmd + " (without change)", "rc": rc_o, "tail": out_o[-800:], "s": t})
meta["tests_pass_with_change"] = ("223 passed" in out_t)
meta["demo_fails_with_change"] = rc_w != 0
meta["demo_passes_without_change"] = rc_o == 0
meta["confirmed"] = meta["tests_pass_with_change"] and meta["demo_fails_with_change"] and meta["demo_passes_without_change"]
for f in os.listdir(src):
    if os.path.isfile(os.path.join(src, f)) and os.path.getsize(os.path.join(src, f)) < 200000:
        shutil.copy(os.path.join(src, f), dst)
notes = os.path.join(src, "notes.md")
if os.path.exists(notes):
    meta["needs_to_manifest"] = open(notes).read()[:1500]
json.dump(meta, open(os.path.join(dst, "meta.json"), "w"), indent=1)
print(prop, n, "confirmed" if meta["confirmed"] else "NOT CONFIRMED", rc_t, rc_w, rc_o)
