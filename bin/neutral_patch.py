#!/usr/bin/env python3
"""neutral_patch.py <dir with */patch.diff> : behaviour-preserving patches written by independent sub-agents; every claimed
check is run on a scratch copy with the patch applied; a VIOLATION is a false alarm.  Appends to mutants/NEUTRAL_SEEDED.json"""
import os, sys, json, shutil, subprocess, concurrent.futures as cf
ROOT = os.path.dirname(os.path.dirname(os.path.abspath(__file__)))
sys.path.insert(0, ROOT)
from contracts import registry
props = sorted(registry.PROPS)
base = sys.argv[1]

def one(name):
    pf = os.path.join(base, name, "patch.diff")
    scratch = "/var/tmp/verif-np-%s-%d" % (name, os.getpid())
    shutil.rmtree(scratch, ignore_errors=True); os.makedirs(scratch)
    try:
        subprocess.run(["rsync", "-a", "--exclude", "target", "--exclude", ".git", "/repo/", scratch + "/"], check=True)
        r = subprocess.run(["patch", "-p1", "-s", "-i", pf], cwd=scratch, capture_output=True, text=True)
        if r.returncode != 0:
            return name, {"_": "patch does not apply"}
        os.makedirs(scratch + "-gen", exist_ok=True)
        env = dict(os.environ, VERIF_REPO=scratch, VERIF_GEN=scratch + "-gen", VERIF_SCRATCH=scratch + "-w")
        row = {}
        for pr in props:
            r = subprocess.run([sys.executable, os.path.join(ROOT, "bin", "check.py"), pr, "--no-evidence", "--no-replay"], env=env, capture_output=True, text=True)
            row[pr] = {0: ".", 1: "V", 2: "u"}.get(r.returncode, "?")
            if r.returncode in (1, 2):
                row[pr + "_why"] = [l[:220] for l in r.stdout.split("\n") if l.startswith(("violated", "UNDECIDED"))][:2]
        return name, row
    finally:
        for d in (scratch, scratch + "-gen", scratch + "-w"):
            shutil.rmtree(d, ignore_errors=True)

names = sorted(d for d in os.listdir(base) if os.path.exists(os.path.join(base, d, "patch.diff")))
with cf.ThreadPoolExecutor(max_workers=4) as ex:
    rows = list(ex.map(one, names))
print("patch   " + " ".join(props))
bad = 0
for name, row in rows:
    if "_" in row:
        print("%-7s %s" % (name, row["_"])); continue
    print("%-7s " % name + "   ".join(row[p] for p in props))
    for p in props:
        if row[p] == "V":
            bad += 1; print("        FALSE ALARM %s: %s" % (p, row.get(p + "_why")))
    und = sorted({w for p in props if row[p] == "u" for w in row.get(p + "_why", [])})
    for w in und[:2]:
        print("        undecided: " + w)
out = os.path.join(ROOT, "mutants", "NEUTRAL_SEEDED.json")
old = json.load(open(out)) if os.path.exists(out) else {}
old.update({name: row for name, row in rows})
json.dump(old, open(out, "w"), indent=1)
print("false alarms:", bad)
