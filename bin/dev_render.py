#!/usr/bin/env python3
"""dev helper: render one unit to generated/<unit>.rs and run verus on it"""
import sys, os, importlib, subprocess, json
sys.path.insert(0, os.path.dirname(os.path.dirname(os.path.abspath(__file__))))
name = sys.argv[1]
mod = importlib.import_module("contracts.u_" + name)
u = mod.build()
text, lmap = u.render()
os.makedirs("/verif/generated", exist_ok=True)
p = "/verif/generated/%s.rs" % name
open(p, "w").write(text)
for f in u.fns:
    assert f.erasure_ok(), f.qual()
r = subprocess.run(["verus", p, "--triggers-mode", "silent", "--multiple-errors", "20"] + sys.argv[2:], capture_output=True, text=True)
print(r.stdout[-3000:])
print(r.stderr[-12000:])
