#!/bin/bash
# run every claimed check on the current tree (quick tier) and validate manifest + evidence against the schemas
cd /verif
python3 bin/gen_manifest.py >/dev/null
rc=0
for p in $(python3 -c "import json;print(' '.join(c['property_id'] for c in json.load(open('MANIFEST.json'))['checks']))"); do
  out=$(python3 bin/check.py $p --tier ${1:-quick} 2>&1 | tail -1); echo "$out"
  case "$out" in OK*) ;; *) rc=1;; esac
done
python3-vt - <<'PY'
import json, jsonschema, sys
m = json.load(open('MANIFEST.json'))
jsonschema.validate(m, json.load(open('/root/.vp/MANIFEST.schema.json')))
es = json.load(open('/root/.vp/EVIDENCE.schema.json'))
bad = 0
for c in m['checks']:
    e = json.load(open(c['evidence_file']))
    jsonschema.validate(e, es)
    cov = e['coverage']
    if e['level'] == 'proof' and cov['obligations'] != cov['discharged']:
        print('EVIDENCE MISMATCH', c['property_id'], cov['obligations'], cov['discharged']); bad = 1
print('manifest + %d evidence files valid' % len(m['checks']) if not bad else 'PROBLEM')
sys.exit(bad)
PY
exit $rc
