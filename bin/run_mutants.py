#!/usr/bin/env python3
"""Sensitivity suite (DESIGN.md §8): small compiling changes, each tagged with the property it must break.
Each mutant is applied to a scratch copy of /repo's sources (VERIF_REPO points the checks at it; /repo is untouched),
the property's check is run and must report a VIOLATION.  Also applies the seeded sub-agent patches (seeded/*/patch.diff).
Writes mutants/RESULTS.json.  usage: run_mutants.py [--only Cxx] [--seeded] [--jobs N]"""
import os
import sys
import json
import shutil
import subprocess
import concurrent.futures as cf

ROOT = os.path.dirname(os.path.dirname(os.path.abspath(__file__)))
GEN = "src/codegen/generate.rs"
RP = "src/parser/rust_parser.rs"
CP = "src/parser/code_parser.rs"
CTX = "src/config/context.rs"
FIN = "src/codegen/finder.rs"
MAIN = "src/main.rs"

# (id, property, file, old, new)
MUTANTS = [
    ("m01", "C01", GEN, "ref_id_result.saturating_add(1)", "ref_id_result.wrapping_add(1)"),
    ("m02", "C01", GEN, "|id| id.checked_add(1)", "|id| id.checked_add(2)"),
    ("m03", "C01", GEN, "|id| id.checked_add(1)", "|id| Some(id.wrapping_add(1))"),
    ("m04", "C01", GEN, "max_file_ref = cmp::max(max_file_ref, reference_id);", "max_file_ref = cmp::min(max_file_ref, reference_id);"),
    ("m05", "C01", GEN, "ref_id_result = cmp::max(ref_id_result, map_result.0);", "ref_id_result = map_result.0;"),
    ("m06", "C02", GEN, "next_reference_id.load(std::sync::atomic::Ordering::Relaxed),\n            context.config.config_dir.as_str(),",
     "calculated_next_reference_id,\n            context.config.config_dir.as_str(),"),
    ("m07", "C03", GEN, "&file_contents.as_bytes()[unwritten_content_start_pos..end_of_file_index],", "&file_contents.as_bytes()[unwritten_content_start_pos + 1..end_of_file_index],"),
    ("m08", "C03", GEN, "unwritten_content_start_pos += insert_pos - unwritten_content_start_pos;", "unwritten_content_start_pos = insert_pos + 1;"),
    ("m09", "C03", GEN, "if unwritten_content_start_pos < end_of_file_index", "if unwritten_content_start_pos + 1 < end_of_file_index"),
    ("m10", "C05", GEN, "            if !reference.exists()\n            {\n                let path_copy = path.to_string();", "            if !reference.exists() || !reference.usable_reference_position()\n            {\n                let path_copy = path.to_string();"),
    ("m11", "C05", GEN, "        if missing_reference_count > 0", "        if missing_reference_count > 1"),
    ("m12", "C05", GEN, "                    num_missing_refs += 1;", "                    num_missing_refs += 2;"),
    ("m13", "C07", GEN, "        if let Err(e) = scratch_file.file().flush().await\n        {", "        if let Err(e) = scratch_file.file().flush().await\n        {\n            let _ = async_std::fs::rename(scratch_file.path(), path).await;"),
    ("m14", "C08", GEN, "        if reference_updates.failure\n        {\n            return Err(", "        if reference_updates.failure && reference_updates.num_inserted_references == 0\n        {\n            return Err("),
    ("m15", "C08", GEN, "            reduce_failure |= map_result.failure;", "            reduce_failure = map_result.failure;"),
    ("m16", "C18", GEN, "                None => return Err(\"Check interrupted\"),", "                None => 0,"),
    ("m17", "C16", CTX, "fn default_use_cache() -> bool\n{\n    true", "fn default_use_cache() -> bool\n{\n    false"),
    ("m18", "C16", CTX, "    #[serde(default = \"default_use_cache\")]\n", "    #[serde(default)]\n"),
    ("m19", "C16", CTX, "        if !config.use_cache || !cache_path.exists()", "        if !cache_path.exists()"),
    ("m20", "C15", CTX, "std::path::Path::new(directory_path).join(Context::CACHE_FILENAME);\n\n        let cache = Cache", "std::path::Path::new(self.config.source_dir.as_str()).join(Context::CACHE_FILENAME);\n\n        let cache = Cache"),
    ("m21", "C15", CTX, "                    .starts_with(std::path::MAIN_SEPARATOR)\n                {", "                    .starts_with('.')\n                {"),
    ("m22", "C15", FIN, ".filter(|e| e.file_type().is_file())", ".filter(|e| !e.file_type().is_file())"),
    ("m23", "C18", MAIN, "        || signal_hook::flag::register(\n            signal_hook::consts::SIGINT,", "        || signal_hook::flag::register(\n            signal_hook::consts::SIGTERM,"),
    ("m24", "C04", MAIN, "    if app_context.check_mode\n    {", "    if !app_context.check_mode\n    {"),
    ("m25", "C13", RP, "                            if total_kvps > 0", "                            if total_kvps > 1"),
    ("m26", "C13", RP, "                                            Ok(val) => Some(val),\n                                        };\n\n                                        break;", "                                            Ok(val) => Some(val),\n                                        };\n"),
    ("m27", "C13", RP, "                                insertion_suffix = Some(\", \".to_string());", "                                insertion_suffix = Some(\"; \".to_string());"),
    ("m28", "C14", RP, "                        && !check_for_no_kvp_directive(", "                        && check_for_no_kvp_directive("),
    ("m29", "C14", RP, "                            if check_for_ignore_directive(\n                                code,\n                                rule.as_span().start(),", "                            if check_for_ignore_directive(\n                                code,\n                                rule.as_span().end(),"),
    ("m30", "C11", RP, "                    if !macro_of_interest(&macro_name_str, config)", "                    if macro_of_interest(&macro_name_str, config)"),
    ("m31", "C11", RP, "            if macro_name == config_macro.name.as_str()", "            if macro_name != config_macro.name.as_str()"),
    ("m32", "C03", RP, "                                    span.start(),\n                                    span.start_pos().line_col().0,\n                                    span.start_pos().line_col().1,\n                                ));\n\n                                ref_kind = LogRefKind::String;",
     "                                    span.end(),\n                                    span.start_pos().line_col().0,\n                                    span.start_pos().line_col().1,\n                                ));\n\n                                ref_kind = LogRefKind::String;"),
    ("m33", "C17", CP, "        .map_or(subject_pos, |c| subject_pos + c.len_utf8());", "        .map_or(subject_pos, |_c| subject_pos + 1);"),
    ("m34", "C12", CP, r'Regex::new(r"^\[ref: ([0-9]{1,10})\]")', r'Regex::new(r"^\[ref: ([0-9]{1,9})\]")'),
    ("m35", "C12", CP, 'result.push_str(&format!("[ref: {}] ", reference_id));', 'result.push_str(&format!("[ref:{}] ", reference_id));'),
    ("m37", "C14", CP, "        if first_line\n        {\n            first_line = false;\n            continue;\n        }", "        if first_line\n        {\n            first_line = false;\n        }"),
    ("m38", "C14", CP, "            None => break,\n            Some(capture) =>", "            None => continue,\n            Some(capture) =>"),
    ("m39", "C14", CP, "                            if comment.as_str().to_lowercase().trim() == directive_name", "                            if comment.as_str().trim() == directive_name"),
    ("m40", "C14", CP, "                }\n\n                break;\n            },", "                }\n            },"),
    ("m41", "C12", CP, "                Err(_e) => return None,\n                Ok(e) => return Some(e),", "                Err(_e) => return Some(0),\n                Ok(e) => return Some(e),"),
    ("m42", "C13", CP, 'static ref REF_KVP_KEY: String = String::from("ref");', 'static ref REF_KVP_KEY: String = String::from("Ref");'),
    ("m43", "C07", GEN, 'file_path.push(format!("breadlog-{}.tmp", Uuid::new_v4()));', 'file_path.push(format!("breadlog-{}.rs", Uuid::new_v4()));'),
    ("m44", "C08", GEN, "        if remove_file(&self.path).is_ok()\n        {}", "        if self.path.is_empty() && remove_file(&self.path).is_ok()\n        {}"),
    ("m45", "C05", GEN, "                let line = reference.position().line();\n                let column = reference.position().column();", "                let line = reference.position().column();\n                let column = reference.position().line();"),
    ("m46", "C05", GEN, "            reference_updates.num_inserted_references\n        );", "            reference_updates.num_inserted_references + 1\n        );"),
    ("m47", "C01", "src/config/context.rs", "Ok(loaded_cache) => Some(loaded_cache.next_reference_id),", "Ok(loaded_cache) => Some(loaded_cache.next_reference_id.saturating_sub(1)),"),
    ("m36", "C06", GEN, "                if references_id_result.1 == 0\n                {", "                if references_id_result.1 == 1\n                {"),
]


def run_one(mid, prop, patch_kind, payload):
    scratch = "/var/tmp/verif-mut-%s-%d" % (mid, os.getpid())
    shutil.rmtree(scratch, ignore_errors=True)
    os.makedirs(scratch)
    try:
        subprocess.run(["rsync", "-a", "--exclude", "target", "--exclude", ".git", "/repo/", scratch + "/"], check=True)
        if patch_kind == "subst":
            f, old, new = payload
            p = os.path.join(scratch, f)
            s = open(p).read()
            if s.count(old) != 1:
                return {"id": mid, "property": prop, "result": "not-applicable", "why": "pattern occurs %d times" % s.count(old)}
            open(p, "w").write(s.replace(old, new))
        else:
            r = subprocess.run(["patch", "-p1", "-s", "-i", payload], cwd=scratch, capture_output=True, text=True)
            if r.returncode != 0:
                return {"id": mid, "property": prop, "result": "not-applicable", "why": "patch does not apply to the current tree"}
        os.makedirs(scratch + "-gen", exist_ok=True)
        env = dict(os.environ, VERIF_REPO=scratch, VERIF_SCRATCH=scratch + "-w", VERIF_GEN=scratch + "-gen")
        r = subprocess.run([sys.executable, os.path.join(ROOT, "bin", "check.py"), prop, "--no-evidence", "--no-replay"], env=env, capture_output=True, text=True)
        lines = [l for l in r.stdout.split("\n") if l.startswith(("violated", "UNDECIDED", "OK"))]
        res = {0: "survived", 1: "killed", 2: "undecided"}.get(r.returncode, "error")
        return {"id": mid, "property": prop, "result": res, "detail": lines[:3]}
    finally:
        shutil.rmtree(scratch, ignore_errors=True)
        shutil.rmtree(scratch + "-w", ignore_errors=True)
        shutil.rmtree(scratch + "-gen", ignore_errors=True)


def main():
    only = None
    seeded = "--seeded" in sys.argv
    jobs = 4
    if "--only" in sys.argv:
        only = sys.argv[sys.argv.index("--only") + 1]
    if "--jobs" in sys.argv:
        jobs = int(sys.argv[sys.argv.index("--jobs") + 1])
    work = []
    for mid, prop, f, old, new in MUTANTS:
        if only and prop != only:
            continue
        work.append((mid, prop, "subst", (f, old, new)))
    if seeded:
        sd = os.path.join(ROOT, "seeded")
        for d in sorted(os.listdir(sd)):
            prop = d.split("-")[0]
            if only and prop != only:
                continue
            pf = os.path.join(sd, d, "patch.diff")
            if os.path.exists(pf):
                work.append((d, prop, "patch", pf))
    out = []
    with cf.ThreadPoolExecutor(max_workers=jobs) as ex:
        for r in ex.map(lambda a: run_one(*a), work):
            print("%-8s %-4s %-14s %s" % (r["id"], r["property"], r["result"], "; ".join(r.get("detail", []))[:160] or r.get("why", "")), flush=True)
            out.append(r)
    summ = {}
    for r in out:
        summ[r["result"]] = summ.get(r["result"], 0) + 1
    print(summ)
    if not only:
        os.makedirs(os.path.join(ROOT, "mutants"), exist_ok=True)
        with open(os.path.join(ROOT, "mutants", "RESULTS.json"), "w") as f:
            json.dump({"summary": summ, "results": out}, f, indent=1)


if __name__ == "__main__":
    main()
