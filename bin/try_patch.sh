#!/bin/bash
# usage: try_patch.sh <patch.diff> <prop> [prop...]  — apply the patch to a SCRATCH copy of /repo (never /repo itself), run the checks there
set -u
patch="$1"; shift
S=/var/tmp/verif-try-$$
rm -rf $S $S-gen; mkdir -p $S $S-gen
rsync -a --exclude target --exclude .git /repo/ $S/
( cd $S && patch -p1 -s -i "$patch" ) || { echo "patch does not apply"; rm -rf $S $S-gen; exit 9; }
cd /verif
for p in "$@"; do
  out=$(VERIF_REPO=$S VERIF_GEN=$S-gen VERIF_SCRATCH=$S-w python3 bin/check.py "$p" --no-evidence 2>&1); rc=$?
  echo "== $p rc=$rc"; echo "$out" | grep -E "^(violated|VIOLATION|UNDECIDED|OK|KNOWN)" | head -8
done
rm -rf $S $S-gen $S-w
