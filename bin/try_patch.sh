#!/bin/bash
# usage: try_patch.sh <patch.diff> <prop> [prop...]   — apply to /repo, run checks, always revert
set -u
patch="$1"; shift
cd /repo || exit 9
if ! git diff --quiet; then echo "/repo has uncommitted changes"; exit 9; fi
git apply "$patch" || { echo "patch does not apply"; exit 9; }
cd /verif
for p in "$@"; do
  out=$(python3 bin/check.py "$p" --no-evidence 2>&1); rc=$?
  echo "== $p rc=$rc"; echo "$out" | grep -E "^(violated|VIOLATION|UNDECIDED|OK|KNOWN)" | head -8
done
git -C /repo checkout -- . 
