#!/usr/bin/env python3
"""check.py <Cxx> [--tier quick|thorough] [--replay <file>]

Decides one property by discharging, with Verus, the contract obligations woven
into the real functions extracted from /repo's working tree (DESIGN.md §2).
exit 0: every obligation of the property discharged (KNOWN-FINDING lines allowed)
exit 1: `VIOLATION property=<id> replay=<path>[ no-failing-input-found]`
exit 2: UNDECIDED (lost anchor, construct outside the verifier's subset, rlimit) - never on the unchanged tree
"""
import os
import sys
import json
import time
import argparse
import concurrent.futures as cf

ROOT = os.path.dirname(os.path.dirname(os.path.abspath(__file__)))
sys.path.insert(0, ROOT)
os.chdir(ROOT)

from weave import engine  # noqa: E402
from contracts import registry  # noqa: E402

EVID = os.path.join(ROOT, "evidence")
REPLAYS = os.path.join(ROOT, "replays")


def load_known():
    p = os.path.join(ROOT, "known_findings.json")
    if not os.path.exists(p):
        return {"findings": [], "fixed": []}
    with open(p) as f:
        return json.load(f)


def obligation_id(f):
    lab = f.get("label") or "internal"
    site = f.get("site_text") or ""
    return "%s @ %s" % (lab, f.get("fn"))


def props_of_failure(f, unit_res):
    """Which properties a failed obligation counts against."""
    out = set()
    lab = f.get("label")
    fnprops = set()
    for fn in unit_res.get("functions", []):
        if fn["fn"] == f.get("fn"):
            fnprops = set(fn["props"])
    if lab and lab != "CANARY":
        for l in lab.split(","):
            out.add(l.split(".")[0])
        return out, "labelled"
    # unlabelled internal obligation
    if any(k in f["msg"] for k in engine.PANIC_MSGS):
        # a possible run-time panic (overflow / division): C17, and C01 where the arithmetic is ID arithmetic
        out.add("C17")
        if any(k in (f.get("fn") or "") for k in ("NextReferenceIdProcessor", "generate_code", "helper(R9")):
            out.add("C01")
        return out, "internal"
    # any other unlabelled obligation (an unlabelled invariant or hint, a callee precondition): the proofs of all labelled clauses of the
    # enclosing function rest on it, so it counts against that function's properties
    out |= fnprops
    if "precondition not satisfied" in f["msg"] and ("C17" in fnprops or not fnprops):
        out.add("C17")
    return out, "internal"


def main():
    ap = argparse.ArgumentParser()
    ap.add_argument("prop")
    ap.add_argument("--tier", default=os.environ.get("VERIF_TIER", "quick"))
    ap.add_argument("--replay")
    ap.add_argument("--no-evidence", action="store_true", help="do not rewrite evidence/<id>.json (used by the mutant suite on scratch copies)")
    ap.add_argument("--no-replay", action="store_true", help="skip counterexample search / native replay")
    args = ap.parse_args()
    pid = args.prop
    tier = args.tier if args.tier in ("quick", "thorough") else "quick"
    seed = int(os.environ.get("VERIF_SEED", "0") or 0)
    if args.replay:
        from replay import replay as rp
        sys.exit(rp.replay_file(args.replay))
    if pid not in registry.PROPS:
        print("unknown or unclaimed property %s" % pid)
        sys.exit(2)
    spec = registry.PROPS[pid]
    t0 = time.time()
    units = spec["units"]
    results = {}
    if (spec.get("extra") or spec.get("fallback")) and not os.environ.get("VERIF_NO_E2E"):
        # the release build the bounded parts run against is made while Verus works
        import threading
        from contracts import e2e as _e2e
        threading.Thread(target=_e2e.build, daemon=True).start()
    with cf.ThreadPoolExecutor(max_workers=max(1, min(8, len(units)))) as ex:
        futs = {ex.submit(engine.run_unit, u): u for u in units}
        for fu in cf.as_completed(futs):
            results[futs[fu]] = fu.result()

    known = load_known()
    violations = []
    known_hits = []
    undecided = []
    all_fail = []
    for u in units:
        r = results[u]
        if r["status"] == "undecided":
            undecided.append("%s: %s" % (u, r["undecided_reason"]))
        for f in r.get("failures", []):
            ps, how = props_of_failure(f, r)
            if pid not in ps:
                continue
            f = dict(f)
            f["unit"] = u
            f["how"] = how
            f["obligation_id"] = obligation_id(f)
            all_fail.append(f)
    for f in all_fail:
        hit = None
        for k in known.get("findings", []):
            if k["property"] == pid and k["obligation_id"] == f["obligation_id"] and \
               (not k.get("site_contains") or k["site_contains"] in (f.get("site_text") or "") or k["site_contains"] in (f.get("clause_text") or "")):
                hit = k
        if hit:
            known_hits.append((hit, f))
        else:
            violations.append(f)

    # extra (non-Verus) parts of the property: bounded stand-ins, Kani complete proofs
    extra = {}
    extra_viol = []
    if spec.get("extra"):
        for name, fn in spec["extra"]:
            er = fn(tier, seed)
            extra[name] = er
            for v in er.get("violations", []):
                extra_viol.append(v)
            if er.get("undecided"):
                undecided.append("%s: %s" % (name, er["undecided"]))

    # bounded end-to-end families (contracts/e2e*.py): a stand-in when a change has moved a function outside the verifier's reach (UNDECIDED), a
    # search for a concrete failing input when an obligation failed (Verus gives no counterexample), and otherwise an additional run (labelled bounded)
    if spec.get("fallback") and not os.environ.get("VERIF_NO_E2E"):
        for name, fn in spec["fallback"]:
            # as a stand-in or a counterexample search the families run at their thorough sizes
            er = fn("thorough" if (undecided or violations) else tier, seed)
            er["role"] = ("bounded stand-in: the Verus side is undecided" if undecided else
                          ("search for a concrete failing input for the failed obligation(s)" if violations else
                           "additional bounded run through the release binary; the proof above decides the property, this part is never counted as proved"))
            extra[name] = er
            for v in er.get("violations", []):
                extra_viol.append(v)
            if er.get("undecided"):
                undecided.append("%s: %s" % (name, er["undecided"]))

    # ---- thorough tier: stability at half the resource limit, and the sensitivity suite for this property ----------------------
    thorough = {}
    if tier == "thorough" and not args.no_evidence:
        half = {}
        with cf.ThreadPoolExecutor(max_workers=max(1, min(8, len(units)))) as ex:
            futs = {ex.submit(engine.run_unit, u, False, 5): u for u in units}
            for fu in cf.as_completed(futs):
                r5 = fu.result()
                half[futs[fu]] = {"status": r5["status"], "errors": (r5.get("summary") or {}).get("errors"), "wall_s": round(r5.get("wall", 0), 1)}
        thorough["verus_rerun_rlimit_5"] = half
        thorough["unstable_units"] = [u for u, h in half.items() if h["status"] != "ok"]
        # reachability of every early exit (vacuity at path level): `assert(false)` in front of each `return` of the canary copies must fail;
        # the ones that verify are exits the contracts make unreachable (defensive code), listed, not counted as failures
        pc = {}
        with cf.ThreadPoolExecutor(max_workers=max(1, min(8, len(units)))) as ex:
            futs = {ex.submit(engine.path_canary, u): u for u in units}
            for fu in cf.as_completed(futs):
                try:
                    pc[futs[fu]] = fu.result()
                except Exception as e:
                    pc[futs[fu]] = {"error": repr(e)}
        thorough["path_canary"] = pc
        try:
            sys.path.insert(0, os.path.join(ROOT, "bin"))
            import run_mutants as rm
            work = [(m[0], m[1], "subst", (m[2], m[3], m[4])) for m in rm.MUTANTS if m[1] == pid]
            sd = os.path.join(ROOT, "seeded")
            for d in sorted(os.listdir(sd)) if os.path.isdir(sd) else []:
                if d.split("-")[0] == pid and os.path.exists(os.path.join(sd, d, "patch.diff")):
                    work.append((d, pid, "patch", os.path.join(sd, d, "patch.diff")))
            outm = []
            with cf.ThreadPoolExecutor(max_workers=4) as ex:
                for r in ex.map(lambda a: rm.run_one(*a), work):
                    outm.append({"id": r["id"], "result": r["result"], "detail": (r.get("detail") or [r.get("why", "")])[:1]})
            summ = {}
            for r in outm:
                summ[r["result"]] = summ.get(r["result"], 0) + 1
            thorough["sensitivity"] = {"summary": summ, "mutants": outm,
                                       "note": "each change applied to a scratch copy (VERIF_REPO); killed = the check reported a VIOLATION for this property; "
                                               "undecided = construct outside the verifier's subset / lost anchor (exit 2); survived = exit 0"}
        except Exception as e:  # the suite is additional information, never a verdict on /repo
            thorough["sensitivity"] = {"error": repr(e)}

    # ---- evidence ---------------------------------------------------------------------------------
    labels = set()
    fn_list = []
    n_fn = 0
    smt_ms = 0
    trusted = []
    rules = []
    scan = {}
    canary = {}
    for u in units:
        r = results[u]
        for lab in r.get("labels", []):
            if lab.split(".")[0] == pid:
                labels.add(lab)
        for fn in r.get("functions", []):
            if pid in fn["props"]:
                n_fn += 1
                fn_list.append({"fn": fn["fn"], "repo": "%s:%d" % (fn["src"], fn["line"]), "labels": [l for l in fn["labels"] if pid in l],
                                "rules": sorted({a for a, _ in fn["rules"]})})
        smt_ms += (r.get("times_ms") or {}).get("smt") or 0
        for t in r.get("trusted", []):
            if t not in trusted:
                trusted.append(t)
        for k, v in (r.get("trust_scan") or {}).items():
            scan[k] = scan.get(k, 0) + v
        canary[u] = r.get("canary")
    # obligations: one per labelled clause instance of this property + one per function in cone (panic-freedom/termination/internal)
    clause_obls = []
    for u in units:
        r = results[u]
        for fn in r.get("functions", []):
            for l in fn["labels"]:
                if pid in [x.split(".")[0] for x in l.split(",")]:
                    clause_obls.append("%s @ %s" % (l, fn["fn"]))
        for lab in r.get("labels", []):
            if lab.split(".")[0] == pid and not any(o.startswith(lab + " @") for o in clause_obls):
                clause_obls.append("%s @ %s(raw)" % (lab, u))
    safety_obls = ["safety+termination @ %s" % f["fn"] for f in fn_list]
    # obligations listed as known findings are reported separately: they are neither counted as obligations of the proof nor as discharged
    known_ids = {f["obligation_id"] for _, f in known_hits}
    all_fail_counted = [f for f in all_fail if f["obligation_id"] not in known_ids]
    clause_obls = [o for o in clause_obls if o not in known_ids]
    failed_ids = {f["obligation_id"] for f in all_fail_counted}
    failed_fns_internal = {f["fn"] for f in all_fail_counted if f["how"] == "internal"}
    obligations = len(clause_obls) + len(safety_obls)
    failed_n = len([o for o in clause_obls if o in failed_ids]) + len([f for f in fn_list if f["fn"] in failed_fns_internal])
    # violations that are labelled shim preconditions at call sites are extra obligations
    site_obl = [f for f in all_fail_counted if f["obligation_id"] not in clause_obls and f["how"] == "labelled"]
    obligations += len(site_obl)
    failed_n += len(site_obl)
    discharged = obligations - failed_n
    for name, er in extra.items():
        obligations += er.get("obligations", 0)
        discharged += er.get("discharged", 0)

    status = "held"
    if violations or extra_viol:
        status = "violation"
    elif undecided:
        status = "undecided"

    os.makedirs(EVID, exist_ok=True)
    os.makedirs(REPLAYS, exist_ok=True)
    replay_paths = []
    if violations or extra_viol:
        from replay import replay as rp
        for i, v in enumerate(violations + extra_viol):
            path = os.path.join(os.environ.get("VERIF_GEN") or REPLAYS, "%s-%d.json" % (pid, i + 1))
            found = rp.make_replay(pid, v, path, tier, use_templates=not args.no_replay)
            replay_paths.append((path, found, v))

    level = spec.get("level", "proof")
    cov = {
        "obligations": obligations,
        "discharged": discharged,
        "checker_cmd": "; ".join(sorted({results[u].get("verus_cmd", "") for u in units if results[u].get("verus_cmd")})) or "verus (not run: %s)" % "; ".join(undecided),
        "trusted_base": trusted + ["generated-text scan: " + ", ".join("%s x%d" % kv for kv in sorted(scan.items()))] + spec.get("assumptions", []),
        "functions_under_contract": fn_list,
        "labelled_obligations": clause_obls,
        "backend": "verus 0.2026.09.13 / z3 (bundled)",
        "solver_ms": smt_ms,
        "units": {u: {"status": results[u]["status"], "verified_fns": (results[u].get("summary") or {}).get("verified"),
                      "errors": (results[u].get("summary") or {}).get("errors"), "sha256": results[u].get("sha256"),
                      "wall_s": round(results[u].get("wall", 0), 2), "canary": results[u].get("canary"),
                      "undecided_reason": results[u].get("undecided_reason")} for u in units},
        "trusted_items": {u: results[u].get("trusted_items") for u in units},
        "machine_arithmetic": "exec integers are fixed-width (Verus proves absence of overflow for every exec operation in the cone); the ghost ID counter, sums and "
                              "positions in specifications are mathematical integers",
        "rewrite_rules_applied": sorted({"%s: %s" % (a, b) for u in units for fn in results[u].get("functions", []) for a, b in fn["rules"] if a != "G"})[:200],
        "status": status,
        "undecided": undecided,
        "known_findings_hit": [{"obligation": k["obligation_id"], "what_fails": k["what_fails"], "how_to_reproduce": k.get("how_to_reproduce")} for k, _ in known_hits],
        "known_findings_note": "obligations listed as known findings are NOT discharged and are excluded from obligations/discharged above" if known_hits else "",
        "samples": [o for o in clause_obls[:8]] or ["(none)"],
        "failed": [{"obligation": f["obligation_id"], "msg": f["msg"], "repo": "%s:%s" % (f.get("src"), f.get("sline")),
                    "site": f.get("site_text")} for f in all_fail],
    }
    if thorough:
        cov["thorough"] = thorough
    if level != "proof":
        cov["explanation"] = spec.get("level_text", "")
    for name, er in extra.items():
        cov[name] = {k: v for k, v in er.items() if k not in ("violations",)}
        if level in ("exploration",) and "evaluations" in er:
            cov["evaluations"] = cov.get("evaluations", 0) + er["evaluations"]
            cov["distinct_nontrivial"] = cov.get("distinct_nontrivial", 0) + er.get("distinct_nontrivial", 0)
            if "rule" not in cov:
                cov["rule"] = er.get("rule", "")
                cov["exhaustive"] = er.get("exhaustive", False)
            else:
                cov["rule"] += " || additionally (%s): %s" % (name, er.get("rule", ""))
            if er.get("samples"):
                cov["samples"] = er["samples"]
    ev = {
        "property_id": pid,
        "tier": tier,
        "seed": seed,
        "level": level,
        "coverage": cov,
        "assumptions": trusted + spec.get("assumptions", []),
        "wall_s": round(time.time() - t0, 2),
        "violations": len(violations) + len(extra_viol),
    }
    if not args.no_evidence:
        with open(os.path.join(EVID, "%s.json" % pid), "w") as f:
            json.dump(ev, f, indent=1)

    seen_k = set()
    for k, f in known_hits:
        if k["obligation_id"] not in seen_k:
            seen_k.add(k["obligation_id"])
            print("KNOWN-FINDING: property=%s %s" % (pid, k["what_fails"]))
    if violations or extra_viol:
        for path, found, v in replay_paths:
            print("violated obligation: %s  [%s]  %s" % (v.get("obligation_id"), v.get("msg"), ("repo %s:%s" % (v.get("src"), v.get("sline"))) if v.get("src") else ""))
            print("VIOLATION property=%s replay=%s%s" % (pid, path, "" if found else " no-failing-input-found"))
        sys.exit(1)
    if undecided:
        for uu in undecided:
            print("UNDECIDED property=%s %s" % (pid, uu))
        for name, er in extra.items():
            if er.get("role") and "evaluations" in er:
                print("bounded run %s: no violation of %s in %d scenarios (does not decide the property)" % (name, pid, er["evaluations"]))
        sys.exit(2)
    print("OK property=%s obligations=%d discharged=%d units=%s wall=%.1fs" % (pid, obligations, discharged, ",".join(units), time.time() - t0))
    sys.exit(0)


if __name__ == "__main__":
    main()
