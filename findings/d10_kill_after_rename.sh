#!/bin/bash
# Known finding C02.writeahead: kill between a rename and the lock write. usage: d10_kill_after_rename.sh <breadlog binary>
# exits 1 when the defect shows (duplicate ID after the second run), 0 otherwise
B=${1:-/repo/target/release/breadlog}; D=$(mktemp -d /var/tmp/d10.XXXX); mkdir -p $D/src; cd $D
printf 'source_dir: ./src\nrust:\n  log_macros:\n    - module: log\n      name: info\n' > Breadlog.yaml
for i in 1 2 3; do printf 'fn f%s() {\n    info!("message %s");\n}\n' $i $i > src/f$i.rs; done
printf 'next_reference_id: 100\n' > Breadlog.lock
strace -f -o trace.txt -e trace=rename -e inject=rename:signal=SIGKILL:when=2 $B -c Breadlog.yaml >/dev/null 2>&1
echo "after the killed run: lock: $(tail -1 Breadlog.lock)"; grep -h "ref:" src/*.rs
$B -c Breadlog.yaml >/dev/null 2>&1
echo "after the second run:"; grep -ho "ref: [0-9]*" src/*.rs | sort | uniq -c
dups=$(grep -ho "ref: [0-9]*" src/*.rs | sort | uniq -d | wc -l); cd /; rm -rf $D
[ "$dups" -gt 0 ] && exit 1 || exit 0
