#!/bin/bash
# Known finding C02.lockfail: the lock write fails (ENOSPC) after the sources were updated; the run exits 0. usage: d12_lock_write_enospc.sh <breadlog binary>
# exits 1 when the defect shows (duplicate ID after the second run), 0 otherwise
B=${1:-/repo/target/release/breadlog}; D=$(mktemp -d /var/tmp/d12.XXXX); mkdir -p $D/src; cd $D
printf 'source_dir: ./src\nrust:\n  log_macros:\n    - module: log\n      name: info\n' > Breadlog.yaml
for i in 1 2 3; do printf 'fn f%s() {\n    info!("message %s");\n}\n' $i $i > src/f$i.rs; done
printf 'next_reference_id: 100\n' > Breadlog.lock
strace -f -o trace.txt -P Breadlog.lock -e trace=openat -e inject=openat:error=ENOSPC:when=2 $B -c Breadlog.yaml 2>&1 | grep -E "lock file"; echo "exit status of the run: ${PIPESTATUS[0]}; lock: $(tail -1 Breadlog.lock)"
printf 'fn g() {\n    info!("another");\n}\n' > src/g.rs
$B -c Breadlog.yaml >/dev/null 2>&1
grep -ho "ref: [0-9]*" src/*.rs | sort | uniq -c
dups=$(grep -ho "ref: [0-9]*" src/*.rs | sort | uniq -d | wc -l); cd /; rm -rf $D
[ "$dups" -gt 0 ] && exit 1 || exit 0
