
// ===== appended by /verif (replay/templates.py) to a SCRATCH copy of src/codegen/generate.rs; never committed to /repo =====
#[cfg(kani)]
mod verif_kani
{
    use super::*;

    /// Counterexample finder for [C01.next] (bounded: two per-file results; only used to find inputs, never to claim absence).
    #[kani::proof]
    #[kani::unwind(4)]
    fn verif_reduce_next_id()
    {
        let a: (u32, usize) = (kani::any(), kani::any::<u8>() as usize);
        let b: (u32, usize) = (kani::any(), kani::any::<u8>() as usize);
        let m = core::cmp::max(a.0, b.0);
        let r = <NextReferenceIdProcessor as ReferenceProcessor<u32, (u32, usize), (u32, usize)>>::reduce(&[a, b]);
        if let Some((next, missing)) = r
        {
            assert!(next >= 1 && (next > m || next == u32::MAX));
            assert!(m != 0 || next == 1);
            assert!(missing == a.1 + b.1);
        }
    }
}

#[cfg(kani)]
mod verif_kani_more
{
    use super::*;

    /// Cross-check of [C08.fail]/[C05.count] on the unrewritten code (bounded: two per-file results).
    #[kani::proof]
    #[kani::unwind(4)]
    fn verif_insert_reduce()
    {
        let a = InsertReferencesResult { failure: kani::any(), num_inserted_references: kani::any::<u16>() as usize };
        let b = InsertReferencesResult { failure: kani::any(), num_inserted_references: kani::any::<u16>() as usize };
        let (fa, fb, na, nb) = (a.failure, b.failure, a.num_inserted_references, b.num_inserted_references);
        let r = <InsertReferencesProcessor as ReferenceProcessor<Arc<AtomicU32>, InsertReferencesResult, InsertReferencesResult>>::reduce(&[a, b]).unwrap();
        assert!(r.failure == (fa || fb));
        assert!(r.num_inserted_references == na + nb);
    }

    /// Cross-check of [C05.verdict] (reduce of the count pass), bounded: two per-file counts.
    #[kani::proof]
    #[kani::unwind(4)]
    fn verif_count_reduce()
    {
        let a: u32 = kani::any::<u16>() as u32;
        let b: u32 = kani::any::<u16>() as u32;
        let r = <CountMissingReferenceIdProcessor as ReferenceProcessor<u32, u32, u32>>::reduce(&[a, b]);
        assert!(r == Some(a + b));
    }
}
