
// ===== appended by /verif (replay/templates.py) to a SCRATCH copy of src/codegen/generate.rs; never committed to /repo =====
#[cfg(kani)]
mod verif_kani
{
    use super::*;

    /// Counterexample finder for [C01.next] (bounded: two per-file results; only used to find inputs, never to claim absence).
    #[kani::proof]
    #[kani::unwind(4)]
    fn verif_reduce_next_id()
    {
        let a: (u32, usize) = (kani::any(), kani::any::<u8>() as usize);
        let b: (u32, usize) = (kani::any(), kani::any::<u8>() as usize);
        let m = core::cmp::max(a.0, b.0);
        let r = <NextReferenceIdProcessor as ReferenceProcessor<u32, (u32, usize), (u32, usize)>>::reduce(&[a, b]);
        if let Some((next, missing)) = r
        {
            assert!(next >= 1 && (next > m || next == u32::MAX));
            assert!(m != 0 || next == 1);
            assert!(missing == a.1 + b.1);
        }
    }
}
