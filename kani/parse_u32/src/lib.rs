//! Complete (operand-width bounded) proof that `str::parse::<u32>` on 1..=10 ASCII digits is the canonical decimal value,
//! `Ok(v)` iff v <= 4294967295 — the meaning given to `parse_u32_spec` on the strings the token pattern can capture
//! (`[0-9]{1,10}`).  Loop bound = number of digits (<= 10): #[kani::unwind(12)] with unwinding assertions = complete.
#[cfg(kani)]
mod proofs {
    #[kani::proof]
    #[kani::unwind(12)]
    fn parse_u32_on_digit_strings() {
        let len: usize = kani::any();
        kani::assume(1 <= len && len <= 10);
        let mut buf = [b'0'; 10];
        let mut expected: u64 = 0;
        let mut i = 0;
        while i < 10 {
            if i < len {
                let d: u8 = kani::any();
                kani::assume(d <= 9);
                buf[i] = b'0' + d;
                expected = expected * 10 + d as u64;
            }
            i += 1;
        }
        let s = core::str::from_utf8(&buf[..len]).unwrap();
        let r = s.parse::<u32>();
        if expected <= u32::MAX as u64 {
            assert!(r == Ok(expected as u32));
        } else {
            assert!(r.is_err());
        }
    }
}
