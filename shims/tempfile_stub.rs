// ===== shims/tempfile_stub.rs — assumed contract of AsyncTempFile::new (generate.rs:60-92) =====
// The body (temp_dir, uuid v4, PathBuf, File::create) is outside the verified cone; assumed: the file is created
// under a fresh name that is no project file, or nothing is created.
verus! {
impl AsyncTempFile {
    #[verifier::external_body]
    pub async fn new(Tracked(w): Tracked<&mut World>) -> (r: Result<AsyncTempFile, String>)
        requires
            !old(w).check_mode, // [C04.nowrite]
            atomic_inv(*old(w)), // [C07.frame]
        ensures
            same_but_fs(*old(w), *final(w)),
            r.is_err() ==> final(w).fs == old(w).fs,
            r.is_ok() ==> is_temp(r.unwrap().path@) && !old(w).fs.dom().contains(r.unwrap().path@)
                && final(w).fs == old(w).fs.insert(r.unwrap().path@, Seq::empty())
                && r.unwrap().file.path() == r.unwrap().path@
                && r.unwrap().file.accepted() == Seq::<u8>::empty(),
    { unimplemented!() }
}
}
