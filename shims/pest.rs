// ===== shims/pest.rs — pest's Pairs / Pair / Span / Position as used by rust_parser.rs (assumed contracts) =====
// The ghost parse tree PairG carries rule and byte span of every pair; `kids_rule_ok` (generated from the grammar
// file) says which rules can be children of which; span facts (nesting, order, char boundaries) are pest's guarantees.
verus! {

pub struct PairG { pub rule: Rule, pub start: int, pub end: int, pub children: Seq<PairG> }


// one level of the tree: children lie inside the parent, in order, without overlap, on character boundaries
pub open spec fn kids_span_ok(g: PairG, input: Seq<u8>) -> bool {
    &&& 0 <= g.start <= g.end <= input.len()
    &&& forall|i: int| 0 <= i < g.children.len() ==> g.start <= (#[trigger] g.children[i]).start && g.children[i].start <= g.children[i].end
            && g.children[i].end <= g.end && is_boundary(input, g.children[i].start) && is_boundary(input, g.children[i].end)
    &&& forall|i: int, j: int| 0 <= i < j < g.children.len() ==> (#[trigger] g.children[i]).end <= (#[trigger] g.children[j]).start
}
pub open spec fn node_ok(g: PairG, input: Seq<u8>) -> bool {
    0 <= g.start <= g.end <= input.len() && is_boundary(input, g.start) && is_boundary(input, g.end) && input.len() <= isize::MAX
}

#[verifier::external_body]
pub struct Pair<'i> { _p: &'i str }
#[verifier::external_body]
pub struct Pairs<'i> { _p: &'i str }
#[verifier::external_body]
#[derive(Clone, Copy)]
pub struct Span<'i> { _p: &'i str }
#[verifier::external_body]
#[derive(Clone, Copy)]
pub struct Position<'i> { _p: &'i str }
#[derive(Debug)]
pub struct PestError { pub _p: () }
pub mod pest { pub use super::Span; pub use super::Position; }

impl<'i> Pair<'i> {
    pub uninterp spec fn g(&self) -> PairG;
    pub uninterp spec fn input(&self) -> Seq<u8>;
    #[verifier::external_body]
    pub fn as_rule(&self) -> (r: Rule) ensures r == self.g().rule { unimplemented!() }
    #[verifier::external_body]
    pub fn as_span(&self) -> (r: Span<'i>) ensures r.lo() == self.g().start, r.hi() == self.g().end, r.input() == self.input() { unimplemented!() }
    // the matched text
    #[verifier::external_body]
    pub fn as_str(&self) -> (r: &'i str) ensures r.spec_bytes() == self.input().subrange(self.g().start, self.g().end) { unimplemented!() }
    #[verifier::external_body]
    pub fn into_inner(self) -> (r: Pairs<'i>)
        ensures r.rest() == self.g().children, r.input() == self.input(), kids_rule_ok(self.g()), kids_span_ok(self.g(), self.input())
    { unimplemented!() }
}
impl<'i> Pairs<'i> {
    pub uninterp spec fn rest(&self) -> Seq<PairG>;
    pub uninterp spec fn input(&self) -> Seq<u8>;
    #[verifier::external_body]
    pub fn next(&mut self) -> (r: Option<Pair<'i>>)
        ensures
            final(self).input() == old(self).input(),
            old(self).rest().len() == 0 ==> r.is_none() && final(self).rest() == old(self).rest(),
            old(self).rest().len() > 0 ==> r.is_some() && r.unwrap().g() == old(self).rest()[0] && r.unwrap().input() == old(self).input()
                && final(self).rest() == old(self).rest().subrange(1, old(self).rest().len() as int),
    { unimplemented!() }
}
impl<'i> Span<'i> {
    pub uninterp spec fn lo(&self) -> int;
    pub uninterp spec fn hi(&self) -> int;
    pub uninterp spec fn input(&self) -> Seq<u8>;
    #[verifier::external_body]
    pub fn start(&self) -> (r: usize) requires 0 <= self.lo() <= usize::MAX ensures r == self.lo() { unimplemented!() }
    #[verifier::external_body]
    pub fn end(&self) -> (r: usize) requires 0 <= self.hi() <= usize::MAX ensures r == self.hi() { unimplemented!() }
    #[verifier::external_body]
    pub fn start_pos(&self) -> (r: Position<'i>) ensures r.at() == self.lo(), r.input() == self.input() { unimplemented!() }
    #[verifier::external_body]
    pub fn as_str(&self) -> (r: &'i str)
        requires 0 <= self.lo() <= self.hi() <= self.input().len()
        ensures r.spec_bytes() == self.input().subrange(self.lo(), self.hi())
    { unimplemented!() }
}
// 1-based line and column (in characters) of a byte offset: pest's computation, trusted
pub uninterp spec fn line_of(input: Seq<u8>, at: int) -> int;
pub uninterp spec fn col_of(input: Seq<u8>, at: int) -> int;
impl<'i> Position<'i> {
    pub uninterp spec fn at(&self) -> int;
    pub uninterp spec fn input(&self) -> Seq<u8>;
    #[verifier::external_body]
    pub fn pos(&self) -> (r: usize) requires 0 <= self.at() <= usize::MAX ensures r == self.at() { unimplemented!() }
    #[verifier::external_body]
    pub fn line_col(&self) -> (r: (usize, usize))
        ensures r.0 == line_of(self.input(), self.at()), r.1 == col_of(self.input(), self.at()), 1 <= r.0 <= self.input().len() + 1, 1 <= r.1 <= self.input().len() + 1
    { unimplemented!() }
}

// the tree the generated parser returns for an input (the parser is a deterministic function of the text)
pub uninterp spec fn parse_tree(inp: Seq<u8>) -> Option<PairG>;
pub open spec fn parse_tree_is(inp: Seq<u8>, top: PairG) -> bool { parse_tree(inp) == Some(top) }
pub struct RustParser { pub _p: () }
impl RustParser {
    // RustParser::parse(Rule::file, code): the generated PEG parser (trusted).  On success exactly one top-level pair
    // (rule `file`) spanning the whole input.
    #[verifier::external_body]
    pub fn parse<'i>(rule: Rule, code: &'i str) -> (r: Result<Pairs<'i>, PestError>)
        ensures r.is_ok() ==> r.unwrap().input() == code.spec_bytes() && r.unwrap().rest().len() == 1
            && r.unwrap().rest()[0].rule == rule && node_ok(r.unwrap().rest()[0], code.spec_bytes())
            && parse_tree(code.spec_bytes()) == Some(r.unwrap().rest()[0]),
            r.is_err() ==> parse_tree(code.spec_bytes()).is_none()
    { unimplemented!() }
}

} // verus!
