// ===== shims/yaml.rs — serde_yaml and small std string helpers used by context.rs =====
verus! {

#[derive(Debug)]
pub struct YamlError { pub _p: () }
impl YamlError {
    #[verifier::external_body]
    pub fn to_string(&self) -> (r: String) { unimplemented!() }
}
#[derive(Debug)]
pub struct Infallible { pub _p: () }
impl Infallible {
    #[verifier::external_body]
    pub fn to_string(&self) -> (r: String) { unimplemented!() }
}
// R9: <String as FromStr>::from_str never fails and copies the text
#[verifier::external_body]
pub fn string_from_str(s: &str) -> (r: Result<String, Infallible>)
    ensures r.is_ok() && r.unwrap()@ == s@
{ unimplemented!() }

// R9: String::insert_str(0, prefix)
#[verifier::external_body]
pub fn string_insert_str(t: &mut String, idx: usize, s: &str)
    requires idx == 0
    ensures final(t)@ == s@ + old(t)@
{ t.insert_str(idx, s) }

pub trait YamlModel: Sized { spec fn parse(s: Seq<char>) -> Option<Self>; }
impl YamlModel for Config { open spec fn parse(s: Seq<char>) -> Option<Self> { yaml_config(s) } }
impl YamlModel for Cache { open spec fn parse(s: Seq<char>) -> Option<Self> { yaml_cache(s) } }

pub mod serde_yaml {
    use vstd::prelude::*;
    use super::*;
    // deterministic function of the text
    #[verifier::external_body]
    pub fn from_str<T: YamlModel>(s: &str) -> (r: Result<T, YamlError>)
        ensures
            r.is_ok() == T::parse(s@).is_some(),
            r.is_ok() ==> r.unwrap() == T::parse(s@).unwrap(),
    { unimplemented!() }
    #[verifier::external_body]
    pub fn to_string(c: &Cache) -> (r: Result<String, YamlError>)
        ensures r.is_ok() ==> r.unwrap()@ == yaml_of_cache(*c), r.is_err() ==> lock_write_failed()
    { unimplemented!() }
}

// bytes of a lock file written for `id`: the edit warning followed by the YAML of Cache { id }
pub open spec fn lock_bytes(id: u32) -> Seq<u8> {
    encode_utf8(Context::CACHE_EDIT_WARNING@ + yaml_of_cache(Cache { next_reference_id: id }))
}

} // verus!
