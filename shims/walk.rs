// ===== shims/walk.rs — walkdir / std::fs::metadata / Path::extension as used by finder.rs =====
verus! {

// what WalkDir::new(dir).into_iter().filter_map(|e| e.ok()) yields, in order (walkdir's traversal is trusted:
// every depth, symlinks not followed, so `file_type().is_file()` is false for links and directories)
pub struct DirEntryG { pub path: Seq<char>, pub is_file: bool, pub ext: Option<Seq<char>>, pub utf8: bool,
                       pub follows_to_file: bool }   // Path::is_file(): FOLLOWS symlinks (true for a link to a regular file)
pub uninterp spec fn walk_entries(dir: Seq<char>) -> Seq<DirEntryG>;
pub open spec fn walk_wf(es: Seq<DirEntryG>, w: World) -> bool {
    &&& forall|i: int, j: int| 0 <= i < j < es.len() ==> es[i].path != es[j].path
    &&& forall|i: int| 0 <= i < es.len() && (#[trigger] es[i]).is_file ==> w.fs.dom().contains(es[i].path) && !is_temp(es[i].path) && es[i].path != lock_path()
}

#[verifier::external_body]
pub struct Metadata { _p: () }
impl Metadata {
    pub uninterp spec fn dir(&self) -> bool;
    #[verifier::external_body]
    pub fn is_dir(&self) -> (r: bool) ensures r == self.dir() { unimplemented!() }
}
pub uninterp spec fn is_directory(p: Seq<char>) -> bool;
// std::fs::metadata: Err when the path does not exist / cannot be stat'ed
#[verifier::external_body]
pub fn metadata(path: &String, Tracked(w): Tracked<&mut World>) -> (r: Result<Metadata, IoError>)
    ensures *final(w) == *old(w), r.is_ok() ==> r.unwrap().dir() == is_directory(path@), !path_exists(path@) ==> r.is_err()
{ unimplemented!() }
pub uninterp spec fn path_exists(p: Seq<char>) -> bool;

#[verifier::external_body]
pub struct FileType { _p: () }
impl FileType {
    pub uninterp spec fn file(&self) -> bool;
    #[verifier::external_body]
    pub fn is_file(&self) -> (r: bool) ensures r == self.file() { unimplemented!() }
}
#[verifier::external_body]
pub struct OsStr { _p: () }
impl OsStr {
    pub uninterp spec fn view(&self) -> Option<Seq<char>>;   // None: not valid UTF-8
    #[verifier::external_body]
    pub fn to_str(&self) -> (r: Option<&str>) ensures r.is_some() == self.view().is_some(), r.is_some() ==> r.unwrap()@ == self.view().unwrap() { unimplemented!() }
}
#[verifier::external_body]
pub struct EntryPath { _p: () }
impl EntryPath {
    pub uninterp spec fn g(&self) -> DirEntryG;
    // Path::extension: the part after the last `.` of the file name, if any (std semantics trusted)
    #[verifier::external_body]
    pub fn extension(&self) -> (r: Option<&OsStr>)
        ensures r.is_some() == self.g().ext.is_some(), r.is_some() ==> r.unwrap().view() == (if self.g().utf8 { self.g().ext } else { None })
    { unimplemented!() }
    #[verifier::external_body]
    pub fn to_str(&self) -> (r: Option<&str>) ensures r.is_some() == self.g().utf8, r.is_some() ==> r.unwrap()@ == self.g().path { unimplemented!() }
    // std::path::Path::is_file follows symbolic links, unlike DirEntry::file_type()
    #[verifier::external_body]
    pub fn is_file(&self) -> (r: bool) ensures r == self.g().follows_to_file { unimplemented!() }
}
#[verifier::external_body]
pub struct DirEntry { _p: () }
impl DirEntry {
    pub uninterp spec fn g(&self) -> DirEntryG;
    #[verifier::external_body]
    pub fn file_type(&self) -> (r: FileType) ensures r.file() == self.g().is_file { unimplemented!() }
    #[verifier::external_body]
    pub fn path(&self) -> (r: &EntryPath) ensures r.g() == self.g() { unimplemented!() }
}
// R12: the iterator `WalkDir::new(dir).into_iter().filter_map(|e| e.ok())`
#[verifier::external_body]
pub struct WalkIter { _p: () }
impl WalkIter {
    pub uninterp spec fn rest(&self) -> Seq<DirEntryG>;
    #[verifier::external_body]
    pub fn next(&mut self) -> (r: Option<DirEntry>)
        ensures
            old(self).rest().len() == 0 ==> r.is_none() && final(self).rest() == old(self).rest(),
            old(self).rest().len() > 0 ==> r.is_some() && r.unwrap().g() == old(self).rest()[0]
                && final(self).rest() == old(self).rest().subrange(1, old(self).rest().len() as int),
    { unimplemented!() }
}
#[verifier::external_body]
pub fn walk_ok_entries(dir: &String, follow_links: bool, Tracked(w): Tracked<&mut World>) -> (r: WalkIter)
    requires
        !follow_links, // [C15.symlinks]
    ensures *final(w) == *old(w), r.rest() == walk_entries(dir@), walk_wf(walk_entries(dir@), *old(w))
{ unimplemented!() }

// R9: slice::contains on Vec<String>: exact, case-sensitive comparison of the text
#[verifier::external_body]
pub fn vec_contains_string(v: &Vec<String>, x: &String) -> (r: bool)
    ensures r == exists|i: int| 0 <= i < v@.len() && (#[trigger] v@[i])@ == x@
{ v.contains(x) }

// ---- C15: which walk entries are in scope --------------------------------------------------------------
pub open spec fn ext_listed(exts: Seq<String>, e: Seq<char>) -> bool {
    exists|i: int| 0 <= i < exts.len() && (#[trigger] exts[i])@ == e
}
pub open spec fn entry_in_scope(g: DirEntryG, exts: Seq<String>) -> bool {
    g.is_file && g.utf8 && g.ext.is_some() && ext_listed(exts, g.ext.unwrap())
}
pub open spec fn in_scope(es: Seq<DirEntryG>, exts: Seq<String>, k: int) -> Seq<Seq<char>>
    decreases k
{
    if k <= 0 { Seq::empty() }
    else if entry_in_scope(es[k - 1], exts) { in_scope(es, exts, k - 1).push(es[k - 1].path) }
    else { in_scope(es, exts, k - 1) }
}
pub open spec fn has_source(es: Seq<DirEntryG>, exts: Seq<String>, k: int, p: Seq<char>) -> bool {
    exists|i: int| 0 <= i < k && (#[trigger] es[i]).path == p && entry_in_scope(es[i], exts)
}
pub proof fn lemma_in_scope_members(es: Seq<DirEntryG>, exts: Seq<String>, k: int)
    requires 0 <= k <= es.len()
    ensures forall|j: int| 0 <= j < in_scope(es, exts, k).len() ==> has_source(es, exts, k, #[trigger] in_scope(es, exts, k)[j])
    decreases k
{
    if k > 0 {
        lemma_in_scope_members(es, exts, k - 1);
        let s = in_scope(es, exts, k);
        let s0 = in_scope(es, exts, k - 1);
        assert forall|j: int| 0 <= j < s.len() implies has_source(es, exts, k, #[trigger] s[j]) by {
            if entry_in_scope(es[k - 1], exts) && j == s.len() - 1 {
                assert(es[k - 1].path == s[j]);
            } else {
                assert(s0[j] == s[j]);
                assert(has_source(es, exts, k - 1, s0[j]));
                let i = choose|i: int| 0 <= i < k - 1 && (#[trigger] es[i]).path == s0[j] && entry_in_scope(es[i], exts);
                assert(0 <= i < k && es[i].path == s[j] && entry_in_scope(es[i], exts));
            }
        }
    }
}
pub proof fn lemma_in_scope_distinct(es: Seq<DirEntryG>, exts: Seq<String>, k: int)
    requires 0 <= k <= es.len(), forall|i: int, j: int| 0 <= i < j < es.len() ==> es[i].path != es[j].path
    ensures paths_distinct(in_scope(es, exts, k))
    decreases k
{
    if k > 0 {
        lemma_in_scope_distinct(es, exts, k - 1);
        lemma_in_scope_members(es, exts, k - 1);
        let s = in_scope(es, exts, k);
        let s0 = in_scope(es, exts, k - 1);
        if entry_in_scope(es[k - 1], exts) {
            assert forall|a: int, b: int| 0 <= a < b < s.len() implies s[a] != s[b] by {
                if b == s.len() - 1 {
                    assert(s0[a] == s[a]);
                    assert(has_source(es, exts, k - 1, s0[a]));
                    let i = choose|i: int| 0 <= i < k - 1 && (#[trigger] es[i]).path == s0[a] && entry_in_scope(es[i], exts);
                    assert(es[i].path != es[k - 1].path);
                } else {
                    assert(s0[a] == s[a] && s0[b] == s[b]);
                }
            }
        }
    }
}

// ghost bookkeeping: discovery fixes the set of in-scope files of the run
pub proof fn set_discovered(tracked w: &mut World, files: Seq<Seq<char>>)
    ensures
        final(w).files == files, forall|p: Seq<char>| #[trigger] final(w).protected.contains(p) <==> files.contains(p),
        final(w).fs == old(w).fs, final(w).log == old(w).log,
        same_but_fs(World { protected: final(w).protected, files: final(w).files, ..*old(w) }, *final(w)),
{ admit(); }
// resource assumption (see driver_stubs.rs tree_small)
pub proof fn axiom_tree_small(files: Seq<Seq<char>>, fs: Map<Seq<char>, Seq<u8>>)
    ensures tree_small(files, fs)
{ admit(); }

} // verus!
