// ===== shims/driver_stubs_core.rs — boundary of generate.rs: parser, discovery, lock writer, atomics =====
verus! {

// ---- parser boundary: find_references is a pure function of (text, configuration) --------------------
pub uninterp spec fn found(code: Seq<u8>, cfg: Config) -> Seq<LogRefEntry>;
// find_references itself is verified in unit `find` (positions within the file and non-decreasing); its woven contract is
// emitted as a stub by the unit builder together with the two assumptions below:
//   - it is a pure function of (text, configuration): r@ == found(..)   [no state: the lazy statics are constants]
//   - fewer than 2^32 statements per file
pub mod parser {
    pub use super::{LogRefEntry, LogRefKind, CodePosition};
    pub mod code_parser { pub use super::super::CodeLanguage; pub use super::super::find_references; }
}

// ---- R9: derived Clone is a field-wise copy --------------------------------------------------------------
impl Clone for Config {
    #[verifier::external_body]
    fn clone(&self) -> (r: Self) ensures r == *self { unimplemented!() }
}

// ---- discovery (verified in unit `finder`; here its contract) -------------------------------------------
pub open spec fn paths_distinct(files: Seq<Seq<char>>) -> bool {
    forall|i: int, j: int| 0 <= i < j < files.len() ==> files[i] != files[j]
}
pub open spec fn finder_ok(files: Seq<CodeFile>, w: World) -> bool {
    &&& paths_of(files) == w.files
    &&& paths_distinct(w.files)
    &&& forall|i: int| 0 <= i < w.files.len() ==> w.protected.contains(#[trigger] w.files[i])
    &&& forall|p: Seq<char>| w.protected.contains(p) ==> exists|i: int| 0 <= i < w.files.len() && #[trigger] w.files[i] == p
}
// resource assumption: the discovered tree has fewer than 2^32 statements lacking a reference, whatever the configuration
pub open spec fn tree_small(files: Seq<Seq<char>>, fs: Map<Seq<char>, Seq<u8>>) -> bool {
    forall|cfg: Config| #[trigger] tree_missing(files, fs, cfg, files.len() as int) <= u32::MAX
}
// ---- lock file: Context::cache_next_reference_id is verified in unit `context`; its woven contract is emitted
// here as a stub by the unit builder (stub_of).  lock_bytes is defined there; abstract here.
pub uninterp spec fn lock_bytes(id: u32) -> Seq<u8>;

// ---- atomics ------------------------------------------------------------------------------------------------
// the stop flag: a stop request may be seen at any poll
#[verifier::external_body]
pub fn stop_poll(flag: &Arc<AtomicBool>, Tracked(w): Tracked<&mut World>) -> (r: bool)
    ensures
        final(w).stop_seen == (old(w).stop_seen || r),
        final(w).poll_fresh,
        final(w).fs == old(w).fs, final(w).log == old(w).log,
        same_but_fs(World { stop_seen: final(w).stop_seen, ..*old(w) }, *final(w)),
{ unimplemented!() }

// ghost bookkeeping: starting a file consumes the poll (C18.poll: the flag is polled before EACH file)
pub proof fn consume_poll(tracked w: &mut World)
    ensures *final(w) == (World { poll_fresh: false, ..*old(w) })
{ admit(); }

// the run's single ID counter is created once
pub proof fn axiom_counter_new(tracked w: &mut World, v: u32)
    ensures
        final(w).counter == v as int, final(w).issued == Seq::<u32>::empty(),
        final(w).fs == old(w).fs, final(w).log == old(w).log,
        same_but_fs(World { counter: final(w).counter, issued: final(w).issued, ..*old(w) }, *final(w)),
{ admit(); }
#[verifier::external_body]
pub fn counter_load(a: &Arc<AtomicU32>, Tracked(w): Tracked<&mut World>) -> (r: u32)
    requires 0 <= old(w).counter <= u32::MAX
    ensures r as int == old(w).counter, *final(w) == *old(w)
{ unimplemented!() }

} // verus!
