// ===== shims/strshim.rs — str operations used by the parser (R6, R9) =====
verus! {

// i is a UTF-8 character boundary of b (std: 0, len, or a byte that is not a continuation byte)
pub uninterp spec fn is_boundary(b: Seq<u8>, i: int) -> bool;
pub proof fn axiom_boundary_ends(b: Seq<u8>) ensures is_boundary(b, 0), is_boundary(b, b.len() as int) { admit(); }

// R6: `s[a..b]` on a str: std panics unless both ends are character boundaries within the string
#[verifier::external_body]
pub fn str_slice<'a>(s: &'a str, a: usize, b: usize) -> (r: &'a str)
    requires a <= b <= s.spec_bytes().len(), is_boundary(s.spec_bytes(), a as int), is_boundary(s.spec_bytes(), b as int)
    ensures r.spec_bytes() == s.spec_bytes().subrange(a as int, b as int)
{ &s[a..b] }

#[verifier::external_body]
pub fn str_ends_with(s: &String, suffix: &str) -> (r: bool)
    ensures r == (suffix@.len() <= s@.len() && s@.subrange(s@.len() - suffix@.len(), s@.len() as int) == suffix@)
{ s.ends_with(suffix) }
#[verifier::external_body]
pub fn str_starts_with(s: &String, prefix: &str) -> (r: bool)
    ensures r == (prefix@.len() <= s@.len() && s@.subrange(0, prefix@.len() as int) == prefix@)
{ s.starts_with(prefix) }

#[verifier::external_body]
pub fn strref_starts_with(s: &str, prefix: &str) -> (r: bool)
    ensures r == (prefix@.len() <= s@.len() && s@.subrange(0, prefix@.len() as int) == prefix@)
{ s.starts_with(prefix) }
#[verifier::external_body]
pub fn strref_ends_with(s: &str, suffix: &str) -> (r: bool)
    ensures r == (suffix@.len() <= s@.len() && s@.subrange(s@.len() - suffix@.len(), s@.len() as int) == suffix@)
{ s.ends_with(suffix) }
pub uninterp spec fn contains_spec(s: Seq<char>, t: Seq<char>) -> bool;
#[verifier::external_body]
pub fn strref_contains(s: &str, t: &str) -> (r: bool) ensures r == contains_spec(s@, t@) { s.contains(t) }

// canonical u32 parse of str::parse::<u32> (proved complete for 1-10 digit inputs by the Kani harness, see kani/)
pub uninterp spec fn parse_u32_spec(b: Seq<u8>) -> Option<u32>;
#[verifier::external_body]
pub fn str_parse_u32(s: &str) -> (r: Result<u32, ParseIntError>)
    ensures r.is_ok() == parse_u32_spec(s.spec_bytes()).is_some(), r.is_ok() ==> r.unwrap() == parse_u32_spec(s.spec_bytes()).unwrap()
{ unimplemented!() }
#[derive(Debug)]
pub struct ParseIntError { pub _p: () }

// D6 fix shape: end of the character that starts at a boundary `pos` (pos itself at end of text)
#[verifier::external_body]
pub fn str_char_end(s: &str, pos: usize) -> (r: usize)
    requires pos <= s.spec_bytes().len(), is_boundary(s.spec_bytes(), pos as int)
    ensures pos <= r <= s.spec_bytes().len(), is_boundary(s.spec_bytes(), r as int), pos < s.spec_bytes().len() ==> pos < r
{ unimplemented!() }

} // verus!
