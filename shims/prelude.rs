// ===== shims/prelude.rs — common header of every generated unit =====
#![allow(unused_imports, unused_variables, unused_mut, dead_code, unused_assignments, unreachable_code, non_snake_case)]
use vstd::prelude::*;
use vstd::string::*;
use vstd::utf8::*;
use vstd::future::*;
use vstd::std_specs::cmp::*;
use std::sync::atomic::AtomicU32;
use std::sync::atomic::AtomicBool;
use std::sync::Arc;
use std::sync::atomic;
verus! {

// ---------------------------------------------------------------------------
// Ghost World (DESIGN.md §3.3).  Only admitted proof functions below (the model
// of the outside world) and the shims' assumed contracts speak about how it changes.
// ---------------------------------------------------------------------------
pub struct Event { pub tag: int, pub strs: Seq<Seq<char>>, pub nums: Seq<int> }

pub struct World {
    pub fs: Map<Seq<char>, Seq<u8>>,        // durable content of every path that exists
    pub orig: Map<Seq<char>, Seq<u8>>,      // fs at the start of the run (never changes)
    pub protected: Set<Seq<char>>,          // in-scope source files found by discovery
    pub files: Seq<Seq<char>>,              // the same, in discovery order (CodeFinder.code_files paths)
    pub intended: Map<Seq<char>, Seq<u8>>,  // ghost: complete new content declared when a file's edit begins
    pub alloc: Map<Seq<char>, int>,         // ghost: first ID given to each file that was replaced in this run
    pub check_mode: bool,                   // tied to ProgArgs.check
    pub counter: int,                       // the run's single ID counter, mathematical
    pub issued: Seq<u32>,                   // values handed out by fetch_add, in order
    pub handlers: Set<int>,                 // signals wired to the stop flag
    pub log: Seq<Event>,                    // R1 events
    pub stop_seen: bool,                    // some poll of the stop flag returned true
    pub poll_fresh: bool,                   // ghost: the stop flag has been polled since the last file was started (C18.poll)
}

pub open spec fn same_but_log(a: World, b: World) -> bool {
    a.fs == b.fs && a.orig == b.orig && a.protected == b.protected && a.files == b.files && a.intended == b.intended && a.alloc == b.alloc
    && a.check_mode == b.check_mode && a.counter == b.counter && a.issued == b.issued
    && a.handlers == b.handlers && a.stop_seen == b.stop_seen && a.poll_fresh == b.poll_fresh
}

// R1: a log statement's only effect is one line of output; kept as ghost data.
pub proof fn log_event(tracked w: &mut World, tag: int, strs: Seq<Seq<char>>, nums: Seq<int>)
    ensures
        same_but_log(*old(w), *final(w)),
        final(w).log == old(w).log.push(Event { tag: tag, strs: strs, nums: nums }),
{ admit(); }

// ---------------------------------------------------------------------------
// std glue without a vstd specification (assumed; listed in every evidence file)
// ---------------------------------------------------------------------------
pub assume_specification<T: Ord> [core::cmp::max] (a: T, b: T) -> (r: T)
    ensures
        a.cmp_spec(&b) == core::cmp::Ordering::Greater ==> r == a,
        a.cmp_spec(&b) != core::cmp::Ordering::Greater ==> r == b;

pub assume_specification<T: Ord> [core::cmp::min] (a: T, b: T) -> (r: T)
    ensures
        a.cmp_spec(&b) == core::cmp::Ordering::Greater ==> r == b,
        a.cmp_spec(&b) != core::cmp::Ordering::Greater ==> r == a;

pub assume_specification [std::string::String::as_bytes] (s: &std::string::String) -> (b: &[u8])
    ensures b@ == encode_utf8(s@);

// R9: str::len is the byte length
#[verifier::external_body]
pub fn str_len(s: &str) -> (r: usize)
    ensures r == s.spec_bytes().len(), (r == 0) == (s@.len() == 0)
{ s.len() }

#[verifier::external_body]
pub fn str_char_count(s: &str) -> (r: usize)
    ensures r == s@.len()
{ s.chars().count() }

// canonical decimal rendering (what `{}` does for u32)
pub open spec fn digit(d: nat) -> char { (('0' as u8) + d as u8) as char }
pub open spec fn dec(n: nat) -> Seq<char>
    decreases n
{
    if n < 10 { seq![digit(n)] } else { dec(n / 10).push(digit(n % 10)) }
}
#[verifier::external_body]
pub fn dec_u32(x: u32) -> (r: String)
    ensures r@ == dec(x as nat)
{ format!("{}", x) }

// R5: format! with `{}` placeholders = concatenation of the literal pieces and the Display of the arguments
#[verifier::external_body]
pub fn fmt_concat2(p0: &str, a0: &str) -> (r: String)
    ensures r@ == p0@ + a0@
{ format!("{}{}", p0, a0) }
#[verifier::external_body]
pub fn fmt_concat3(p0: &str, a0: &str, p1: &str) -> (r: String)
    ensures r@ == p0@ + a0@ + p1@
{ format!("{}{}{}", p0, a0, p1) }
#[verifier::external_body]
pub fn fmt_concat5(p0: &str, a0: &str, p1: &str, a1: &str, p2: &str) -> (r: String)
    ensures r@ == p0@ + a0@ + p1@ + a1@ + p2@
{ format!("{}{}{}{}{}", p0, a0, p1, a1, p2) }
#[verifier::external_body]
pub fn fmt_concat1(p0: &str) -> (r: String)
    ensures r@ == p0@
{ p0.to_string() }
#[verifier::external_body]
pub fn fmt_concat4(p0: &str, a0: &str, p1: &str, a1: &str) -> (r: String)
    ensures r@ == p0@ + a0@ + p1@ + a1@
{ format!("{}{}{}{}", p0, a0, p1, a1) }
#[verifier::external_body]
pub fn fmt_concat6(p0: &str, a0: &str, p1: &str, a1: &str, p2: &str, a2: &str) -> (r: String)
    ensures r@ == p0@ + a0@ + p1@ + a1@ + p2@ + a2@
{ format!("{}{}{}{}{}{}", p0, a0, p1, a1, p2, a2) }
#[verifier::external_body]
pub fn fmt_concat7(p0: &str, a0: &str, p1: &str, a1: &str, p2: &str, a2: &str, p3: &str) -> (r: String)
    ensures r@ == p0@ + a0@ + p1@ + a1@ + p2@ + a2@ + p3@
{ format!("{}{}{}{}{}{}{}", p0, a0, p1, a1, p2, a2, p3) }
#[verifier::external_body]
pub fn fmt_concat9(p0: &str, a0: &str, p1: &str, a1: &str, p2: &str, a2: &str, p3: &str, a3: &str, p4: &str) -> (r: String)
    ensures r@ == p0@ + a0@ + p1@ + a1@ + p2@ + a2@ + p3@ + a3@ + p4@
{ format!("{}{}{}{}{}{}{}{}{}", p0, a0, p1, a1, p2, a2, p3, a3, p4) }

} // verus!
