// ===== shims/io.rs — assumed contracts of async-std / std filesystem and atomics over the ghost World =====
verus! {

// whether a file can be read as text during this run (fixed for the run: no concurrent chmod / rewrite)
pub uninterp spec fn readable(p: Seq<char>) -> bool;
// names produced by AsyncTempFile::new (temp_dir()/breadlog-<uuid v4>.tmp)
pub uninterp spec fn is_temp(p: Seq<char>) -> bool;
// ---- paths of this run (std::path semantics are trusted: path_parent / path_join are uninterpreted) ----
pub uninterp spec fn config_arg() -> Seq<char>;                              // the --config argument
pub uninterp spec fn path_parent(p: Seq<char>) -> Option<Seq<char>>;         // Path::parent
pub uninterp spec fn path_join(a: Seq<char>, b: Seq<char>) -> Seq<char>;     // Path::join
// directory containing the configuration file ("" when the argument has no parent)
pub open spec fn config_dir() -> Seq<char> {
    match path_parent(config_arg()) { Some(p) => p, None => Seq::<char>::empty() }
}
pub open spec fn lock_name() -> Seq<char> { seq!['B', 'r', 'e', 'a', 'd', 'l', 'o', 'g', '.', 'l', 'o', 'c', 'k'] }
// [C15.lock] the lock file lives next to the configuration file
pub open spec fn lock_path() -> Seq<char> { path_join(config_dir(), lock_name()) }

// [C07] Every in-scope source file holds its original or its complete new content, and nothing else in the
// project differs from the start of the run.  Required before EVERY mutating operation (= at every boundary
// between two filesystem operations, i.e. every crash point) and proved again at the end of every function.
pub open spec fn atomic_inv(w: World) -> bool {
    &&& !is_temp(lock_path())
    &&& forall|p: Seq<char>| #[trigger] w.protected.contains(p) ==>
            w.fs.dom().contains(p) && w.orig.dom().contains(p) && !is_temp(p) && p != lock_path()
            && (w.fs[p] == w.orig[p] || (w.intended.dom().contains(p) && w.fs[p] == w.intended[p]))
    &&& forall|p: Seq<char>| !w.protected.contains(p) && !is_temp(p) && p != lock_path() ==>
            (#[trigger] w.fs.dom().contains(p) == w.orig.dom().contains(p)) && (w.fs.dom().contains(p) ==> w.fs[p] == w.orig[p])
}

// [C02] write-ahead: when the lock file is in use it already records, durably, a next ID >= w.counter (every ID handed out so far),
// so that a kill right after the next operation cannot lose the reservation.  Nothing in the code establishes this before a
// source file is replaced (the lock is written after all files): the obligation at `rename` is a KNOWN FINDING (known_findings.json).
pub uninterp spec fn lock_covers(w: World) -> bool;
// whether this run's write of the lock file failed (reported as warning [ref: 33]/[ref: 34])
pub uninterp spec fn lock_write_failed() -> bool;

pub open spec fn same_but_fs(a: World, b: World) -> bool {
    a.orig == b.orig && a.protected == b.protected && a.files == b.files && a.intended == b.intended && a.alloc == b.alloc
    && a.check_mode == b.check_mode && a.counter == b.counter && a.issued == b.issued
    && a.handlers == b.handlers && a.stop_seen == b.stop_seen && a.log == b.log
}

pub open spec fn is_prefix(a: Seq<u8>, b: Seq<u8>) -> bool {
    a.len() <= b.len() && b.subrange(0, a.len() as int) == a
}

// ghost bookkeeping: declare the complete new content of a file before its edit begins
pub proof fn declare_intended(tracked w: &mut World, p: Seq<char>, content: Seq<u8>)
    requires !old(w).intended.dom().contains(p)
    ensures
        final(w).intended == old(w).intended.insert(p, content),
        final(w).fs == old(w).fs, final(w).log == old(w).log, same_but_fs(World { intended: final(w).intended, ..*old(w) }, *final(w)),
{ admit(); }

// ghost bookkeeping: remember the first ID of a file that has just been replaced
pub proof fn record_alloc(tracked w: &mut World, p: Seq<char>, first: int)
    ensures
        final(w).alloc == old(w).alloc.insert(p, first),
        final(w).fs == old(w).fs, final(w).log == old(w).log, same_but_fs(World { alloc: final(w).alloc, ..*old(w) }, *final(w)),
{ admit(); }

// std::env::temp_dir() / PathBuf::push / uuid::Uuid::new_v4 as used by AsyncTempFile::new
#[verifier::external_body]
pub struct TempPath { _p: () }
pub uninterp spec fn temp_dir_path() -> Seq<char>;
pub uninterp spec fn is_uuid(s: Seq<char>) -> bool;      // text of a freshly generated v4 UUID
pub open spec fn temp_prefix() -> Seq<char> { seq!['b', 'r', 'e', 'a', 'd', 'l', 'o', 'g', '-'] }
pub open spec fn temp_suffix() -> Seq<char> { seq!['.', 't', 'm', 'p'] }
// names of the form <temp dir>/breadlog-<uuid v4>.tmp are the temporary files of a run: fresh (uuid), no project file
pub proof fn axiom_temp_names(w: World)
    ensures forall|u: Seq<char>| #[trigger] is_uuid(u) ==>
        is_temp(path_join(temp_dir_path(), temp_prefix() + u + temp_suffix()))
        && !w.fs.dom().contains(path_join(temp_dir_path(), temp_prefix() + u + temp_suffix()))
        && !w.protected.contains(path_join(temp_dir_path(), temp_prefix() + u + temp_suffix()))
{ admit(); }
impl TempPath {
    pub uninterp spec fn view(&self) -> Seq<char>;
    #[verifier::external_body]
    pub fn push(&mut self, s: String) ensures final(self).view() == path_join(old(self).view(), s@) { unimplemented!() }
    #[verifier::external_body]
    pub fn to_str(&self) -> (r: Option<&str>) ensures r.is_some() ==> r.unwrap()@ == self.view() { unimplemented!() }
}
// whether unlink(2) on this path succeeds in this run's environment
pub uninterp spec fn unlinkable(p: Seq<char>) -> bool;
pub mod tempshim {
    use vstd::prelude::*;
    use super::*;
    // std::fs::remove_file as used by Drop for AsyncTempFile
    #[verifier::external_body]
    pub fn remove_file(path: &String, Tracked(w): Tracked<&mut World>) -> (r: Result<(), IoError>)
        requires
            !old(w).check_mode, // [C04.nowrite]
            atomic_inv(*old(w)), // [C07.frame]
            is_temp(path@), // [C07.nonatomic]
        ensures
            same_but_fs(*old(w), *final(w)), final(w).log == old(w).log,
            r.is_ok() == unlinkable(path@),
            r.is_ok() ==> final(w).fs == old(w).fs.remove(path@),
            r.is_err() ==> final(w).fs == old(w).fs,
    { unimplemented!() }
    #[verifier::external_body]
    pub fn temp_dir() -> (r: TempPath) ensures r.view() == temp_dir_path() { unimplemented!() }
    pub struct Uuid { pub _p: () }
    impl Uuid {
        #[verifier::external_body]
        pub fn new_v4() -> (r: Uuid) { unimplemented!() }
    }
    // `{}` of a Uuid
    #[verifier::external_body]
    pub fn uuid_string(u: Uuid) -> (r: String) ensures is_uuid(r@) { unimplemented!() }
    // `{}` of an error value: some text
    #[verifier::external_body]
    pub fn display_string<T>(e: T) -> (r: String) { unimplemented!() }
}

#[derive(Debug)]
pub struct IoError { pub _p: () }
// std::io::ErrorKind as far as error handlers may inspect it (R13: std::io:: re-rooted here); the kind is nondeterministic
#[derive(PartialEq, Eq, Structural, Clone, Copy, Debug)]
pub enum IoErrorKind { NotFound, PermissionDenied, AlreadyExists, InvalidInput, CrossesDevices, StorageFull, Interrupted, Unsupported, Other }
pub mod stdshim_io { pub use super::IoErrorKind as ErrorKind; }
impl IoError {
    #[verifier::external_body]
    pub fn kind(&self) -> (r: IoErrorKind) { unimplemented!() }
}

pub mod async_std {
    pub mod io { pub trait WriteExt {} }
    pub mod fs {
        use vstd::prelude::*;
        use super::super::*;
        #[verifier::external_body]
        pub struct File { _p: () }
        impl File {
            pub uninterp spec fn path(&self) -> Seq<char>;
            // bytes accepted by write_all so far (async-std 1.13 keeps them in an in-memory cache, file.rs:846-885)
            pub uninterp spec fn accepted(&self) -> Seq<u8>;

            #[verifier::external_body]
            pub async fn write_all(&mut self, buf: &[u8], Tracked(w): Tracked<&mut World>) -> (r: Result<(), IoError>)
                requires
                    !old(w).check_mode, // [C04.nowrite]
                    atomic_inv(*old(w)), // [C07.frame]
                    is_temp(old(self).path()), // [C07.nonatomic]
                    old(w).fs.dom().contains(old(self).path()),
                ensures
                    final(self).path() == old(self).path(),
                    r.is_ok() ==> final(self).accepted() == old(self).accepted() + buf@,
                    final(w).fs.dom() == old(w).fs.dom(),
                    forall|p: Seq<char>| p != old(self).path() ==> final(w).fs[p] == old(w).fs[p],
                    // what is on disk is some prefix of what was accepted
                    r.is_ok() ==> is_prefix(final(w).fs[old(self).path()], final(self).accepted()),
                    same_but_fs(*old(w), *final(w)),
            { unimplemented!() }

            #[verifier::external_body]
            pub async fn flush(&mut self, Tracked(w): Tracked<&mut World>) -> (r: Result<(), IoError>)
                requires
                    !old(w).check_mode, // [C04.nowrite]
                    atomic_inv(*old(w)), // [C07.frame]
                    is_temp(old(self).path()), // [C07.nonatomic]
                    old(w).fs.dom().contains(old(self).path()),
                ensures
                    final(self).path() == old(self).path(), final(self).accepted() == old(self).accepted(),
                    final(w).fs.dom() == old(w).fs.dom(),
                    forall|p: Seq<char>| p != old(self).path() ==> final(w).fs[p] == old(w).fs[p],
                    r.is_ok() ==> final(w).fs[old(self).path()] == final(self).accepted(),
                    same_but_fs(*old(w), *final(w)),
            { unimplemented!() }
        }

        impl File {
            // File::create: creates or TRUNCATES the file at `path` (a non-atomic writer: never on an in-scope source file)
            #[verifier::external_body]
            pub async fn create(path: super::super::TempPath, Tracked(w): Tracked<&mut World>) -> (r: Result<File, IoError>)
                requires
                    !old(w).check_mode, // [C04.nowrite]
                    atomic_inv(*old(w)), // [C07.frame]
                    is_temp(path.view()) && !old(w).protected.contains(path.view()), // [C07.nonatomic]
                ensures
                    same_but_fs(*old(w), *final(w)),
                    r.is_err() ==> final(w).fs == old(w).fs,
                    r.is_ok() ==> final(w).fs == old(w).fs.insert(path.view(), Seq::empty()) && r.unwrap().path() == path.view()
                        && r.unwrap().accepted() == Seq::<u8>::empty(),
            { unimplemented!() }
        }
        impl File {
            // fsync after draining the write cache: same contract as flush for the visible content
            #[verifier::external_body]
            pub async fn sync_all(&mut self, Tracked(w): Tracked<&mut World>) -> (r: Result<(), IoError>)
                requires
                    !old(w).check_mode, // [C04.nowrite]
                    atomic_inv(*old(w)), // [C07.frame]
                    is_temp(old(self).path()), // [C07.nonatomic]
                    old(w).fs.dom().contains(old(self).path()),
                ensures
                    final(self).path() == old(self).path(), final(self).accepted() == old(self).accepted(),
                    final(w).fs.dom() == old(w).fs.dom(),
                    forall|p: Seq<char>| p != old(self).path() ==> final(w).fs[p] == old(w).fs[p],
                    r.is_ok() ==> final(w).fs[old(self).path()] == final(self).accepted(),
                    same_but_fs(*old(w), *final(w)),
            { unimplemented!() }
        }
        // Non-atomic writers: they open the destination itself for writing, so a crash or error leaves it truncated.
        // They may never target an in-scope source file ([C07.nonatomic]).
        #[verifier::external_body]
        pub async fn copy(from: &str, to: &str, Tracked(w): Tracked<&mut World>) -> (r: Result<u64, IoError>)
            requires
                !old(w).check_mode, // [C04.nowrite]
                atomic_inv(*old(w)), // [C07.frame]
                !old(w).protected.contains(to@) && (is_temp(to@) || to@ == lock_path()), // [C07.nonatomic]
            ensures
                same_but_fs(*old(w), *final(w)),
                forall|p: Seq<char>| p != to@ ==> (#[trigger] final(w).fs.dom().contains(p)) == old(w).fs.dom().contains(p),
                forall|p: Seq<char>| p != to@ ==> (#[trigger] final(w).fs[p]) == old(w).fs[p],
        { unimplemented!() }
        #[verifier::external_body]
        pub async fn write(to: &str, contents: &[u8], Tracked(w): Tracked<&mut World>) -> (r: Result<(), IoError>)
            requires
                !old(w).check_mode, // [C04.nowrite]
                atomic_inv(*old(w)), // [C07.frame]
                !old(w).protected.contains(to@) && (is_temp(to@) || to@ == lock_path()), // [C07.nonatomic]
            ensures
                same_but_fs(*old(w), *final(w)),
                forall|p: Seq<char>| p != to@ ==> (#[trigger] final(w).fs.dom().contains(p)) == old(w).fs.dom().contains(p),
                forall|p: Seq<char>| p != to@ ==> (#[trigger] final(w).fs[p]) == old(w).fs[p],
        { unimplemented!() }
        #[verifier::external_body]
        pub async fn remove_file(p0: &str, Tracked(w): Tracked<&mut World>) -> (r: Result<(), IoError>)
            requires
                !old(w).check_mode, // [C04.nowrite]
                atomic_inv(*old(w)), // [C07.frame]
                is_temp(p0@), // [C07.nonatomic]
            ensures
                same_but_fs(*old(w), *final(w)),
                forall|p: Seq<char>| p != p0@ ==> (#[trigger] final(w).fs.dom().contains(p)) == old(w).fs.dom().contains(p),
                forall|p: Seq<char>| p != p0@ ==> (#[trigger] final(w).fs[p]) == old(w).fs[p],
        { unimplemented!() }

        // rename(2): atomic replacement of `to`; a failed rename changes nothing (POSIX)
        #[verifier::external_body]
        pub async fn rename(from: &str, to: &str, Tracked(w): Tracked<&mut World>) -> (r: Result<(), IoError>)
            requires
                !old(w).check_mode, // [C04.nowrite]
                atomic_inv(*old(w)), // [C07.frame]
                is_temp(from@) && old(w).fs.dom().contains(from@), // [C07.source]
                old(w).protected.contains(to@), // [C15.target]
                old(w).intended.dom().contains(to@) && old(w).fs[from@] == old(w).intended[to@], // [C07.complete]
                lock_covers(*old(w)), // [C02.writeahead]
            ensures
                r.is_ok() ==> final(w).fs == old(w).fs.remove(from@).insert(to@, old(w).fs[from@]),
                r.is_err() ==> final(w).fs == old(w).fs,
                same_but_fs(*old(w), *final(w)),
        { unimplemented!() }

        #[verifier::external_body]
        pub async fn read_to_string(path: &String, Tracked(w): Tracked<&mut World>) -> (r: Result<String, IoError>)
            ensures
                *final(w) == *old(w),
                r.is_ok() == readable(path@),
                r.is_ok() ==> old(w).fs.dom().contains(path@) && r.unwrap()@.len() >= 0 && encode_utf8(r.unwrap()@) == old(w).fs[path@],
        { unimplemented!() }
    }
}

// The run's single ID counter (sequential use: the weaver checks it is only touched by new/fetch_*/load/clone
// and never moved into a spawned task).  R9 call-site axioms.
pub proof fn axiom_fetch_add(tracked w: &mut World, ret: u32, inc: u32)
    ensures
        ret as int == old(w).counter % 0x1_0000_0000,
        final(w).counter == old(w).counter + inc,
        final(w).issued == old(w).issued.push(ret),
        final(w).fs == old(w).fs, final(w).log == old(w).log,
        same_but_fs(World { counter: final(w).counter, issued: final(w).issued, ..*old(w) }, *final(w)),
{ admit(); }

// checked increment: what the closure passed to fetch_update must compute (proved of the real closure text by a woven helper)
pub open spec fn counter_update_spec(v: u32) -> Option<u32> {
    if v < u32::MAX { Some((v + 1) as u32) } else { None }
}
// AtomicU32::fetch_update on the run's counter with the update function above (sequential use)
#[verifier::external_body]
pub fn counter_fetch_update(a: &Arc<AtomicU32>, Tracked(w): Tracked<&mut World>) -> (r: Result<u32, u32>)
    requires 0 <= old(w).counter <= u32::MAX
    ensures
        old(w).counter < u32::MAX ==> r == Ok::<u32, u32>(old(w).counter as u32) && final(w).counter == old(w).counter + 1
            && final(w).issued == old(w).issued.push(old(w).counter as u32),
        old(w).counter == u32::MAX ==> r == Err::<u32, u32>(old(w).counter as u32) && final(w).counter == old(w).counter && final(w).issued == old(w).issued,
        final(w).fs == old(w).fs, final(w).log == old(w).log,
        same_but_fs(World { counter: final(w).counter, issued: final(w).issued, ..*old(w) }, *final(w)),
{ unimplemented!() }

// the stop flag is an AtomicBool whose load is nondeterministic in vstd: a stop request may be seen at any poll
pub proof fn axiom_stop_poll(tracked w: &mut World, v: bool)
    ensures
        final(w).stop_seen == (old(w).stop_seen || v),
        final(w).fs == old(w).fs, final(w).log == old(w).log,
        same_but_fs(World { stop_seen: final(w).stop_seen, ..*old(w) }, *final(w)),
{ admit(); }

pub mod task {
    use vstd::prelude::*;
    use vstd::future::*;
    // single-threaded executor: runs the future to completion
    #[verifier::external_body]
    pub fn block_on<F: core::future::Future>(f: F) -> (r: F::Output)
        ensures f.awaited(), r == f@
    { unimplemented!() }
}

} // verus!
