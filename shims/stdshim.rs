// ===== shims/stdshim.rs — std::path / std::fs / str helpers used by main.rs and context.rs (R13) =====
verus! {

pub trait StrView { spec fn sv(&self) -> Seq<char>; }
impl StrView for str { open spec fn sv(&self) -> Seq<char> { self@ } }
impl StrView for String { open spec fn sv(&self) -> Seq<char> { self@ } }

// R9: str::starts_with(char)
#[verifier::external_body]
pub fn string_starts_with_char(t: &String, c: char) -> (r: bool)
    ensures r == (t@.len() > 0 && t@[0] == c)
{ t.starts_with(c) }

#[verifier::external_body]
pub fn string_ends_with_char(t: &String, c: char) -> (r: bool)
    ensures r == (t@.len() > 0 && t@[t@.len() - 1] == c)
{ t.ends_with(c) }

pub mod stdshim {
    pub mod path {
        use vstd::prelude::*;
        use super::super::*;
        pub const MAIN_SEPARATOR: char = '/';
        #[verifier::external_body]
        pub struct Path { _p: () }
        #[verifier::external_body]
        pub struct PathBuf { _p: () }
        impl Path {
            pub uninterp spec fn view(&self) -> Seq<char>;
            #[verifier::external_body]
            pub fn new<S: StrView + ?Sized>(s: &S) -> (r: &Path) ensures r.view() == s.sv() { unimplemented!() }
            #[verifier::external_body]
            pub fn parent(&self) -> (r: Option<&Path>)
                ensures r.is_some() == path_parent(self.view()).is_some(), r.is_some() ==> r.unwrap().view() == path_parent(self.view()).unwrap()
            { unimplemented!() }
            // a Path built from a str is valid UTF-8
            #[verifier::external_body]
            pub fn to_str(&self) -> (r: Option<&str>) ensures r.is_some() && r.unwrap()@ == self.view() { unimplemented!() }
            #[verifier::external_body]
            pub fn is_absolute(&self) -> (r: bool) ensures r == (self.view().len() > 0 && self.view()[0] == '/') { unimplemented!() }
            #[verifier::external_body]
            pub fn join<S: StrView + ?Sized>(&self, s: &S) -> (r: PathBuf) ensures r.view() == path_join(self.view(), s.sv()) { unimplemented!() }
        }
        impl PathBuf {
            pub uninterp spec fn view(&self) -> Seq<char>;
            #[verifier::external_body]
            pub fn to_str(&self) -> (r: Option<&str>) ensures r.is_some() && r.unwrap()@ == self.view() { unimplemented!() }
            #[verifier::external_body]
            pub fn exists(&self, Tracked(w): Tracked<&mut World>) -> (r: bool)
                ensures *final(w) == *old(w), r == old(w).fs.dom().contains(self.view())
            { unimplemented!() }
        }
    }
    pub mod env {
        use vstd::prelude::*;
        use super::super::*;
        // the process's working directory: unrelated to the configuration file's directory
        #[verifier::external_body]
        pub fn current_dir() -> (r: Result<super::path::PathBuf, IoError>) { unimplemented!() }
    }
    pub mod fs {
        use vstd::prelude::*;
        use super::super::*;
        pub trait PathArg { spec fn pv(&self) -> Seq<char>; }
        impl PathArg for &String { open spec fn pv(&self) -> Seq<char> { self@ } }
        impl PathArg for super::path::PathBuf { open spec fn pv(&self) -> Seq<char> { self.view() } }
        impl PathArg for &super::path::PathBuf { open spec fn pv(&self) -> Seq<char> { self.view() } }
        impl PathArg for &str { open spec fn pv(&self) -> Seq<char> { self@ } }
        // std::fs::read_to_string: Ok iff the file can be read as text; no effect
        #[verifier::external_body]
        pub fn read_to_string<P: PathArg>(path: P, Tracked(w): Tracked<&mut World>) -> (r: Result<String, IoError>)
            ensures
                *final(w) == *old(w),
                r.is_ok() == readable(path.pv()),
                r.is_ok() ==> old(w).fs.dom().contains(path.pv()) && encode_utf8(r.unwrap()@) == old(w).fs[path.pv()],
        { unimplemented!() }
        // other mutating std::fs calls: none of them is ever legitimate in check mode, nor on an in-scope source file
        #[verifier::external_body]
        pub fn remove_file<P: PathArg>(path: P, Tracked(w): Tracked<&mut World>) -> (r: Result<(), IoError>)
            requires
                !old(w).check_mode, // [C04.nowrite]
                atomic_inv(*old(w)), // [C07.frame]
                is_temp(path.pv()), // [C07.nonatomic]
            ensures
                same_but_fs(*old(w), *final(w)), final(w).log == old(w).log,
                forall|p: Seq<char>| p != path.pv() ==> (#[trigger] final(w).fs.dom().contains(p)) == old(w).fs.dom().contains(p),
                forall|p: Seq<char>| p != path.pv() ==> (#[trigger] final(w).fs[p]) == old(w).fs[p],
        { unimplemented!() }
        #[verifier::external_body]
        pub fn copy<P: PathArg, Q: PathArg>(from: P, to: Q, Tracked(w): Tracked<&mut World>) -> (r: Result<u64, IoError>)
            requires
                !old(w).check_mode, // [C04.nowrite]
                atomic_inv(*old(w)), // [C07.frame]
                !old(w).protected.contains(to.pv()) && (is_temp(to.pv()) || to.pv() == lock_path()), // [C07.nonatomic]
            ensures
                same_but_fs(*old(w), *final(w)), final(w).log == old(w).log,
                forall|p: Seq<char>| p != to.pv() ==> (#[trigger] final(w).fs.dom().contains(p)) == old(w).fs.dom().contains(p),
                forall|p: Seq<char>| p != to.pv() ==> (#[trigger] final(w).fs[p]) == old(w).fs[p],
        { unimplemented!() }
        #[verifier::external_body]
        pub fn rename<P: PathArg, Q: PathArg>(from: P, to: Q, Tracked(w): Tracked<&mut World>) -> (r: Result<(), IoError>)
            requires
                !old(w).check_mode, // [C04.nowrite]
                atomic_inv(*old(w)), // [C07.frame]
                is_temp(from.pv()) && old(w).fs.dom().contains(from.pv()), // [C07.source]
                old(w).protected.contains(to.pv()), // [C15.target]
                old(w).intended.dom().contains(to.pv()) && old(w).fs[from.pv()] == old(w).intended[to.pv()], // [C07.complete]
            ensures
                r.is_ok() ==> final(w).fs == old(w).fs.remove(from.pv()).insert(to.pv(), old(w).fs[from.pv()]),
                r.is_err() ==> final(w).fs == old(w).fs,
                same_but_fs(*old(w), *final(w)), final(w).log == old(w).log,
        { unimplemented!() }
        // std::fs::write: create/truncate + write, NOT atomic: on error anything may be left at that path
        #[verifier::external_body]
        pub fn write(path: super::path::PathBuf, contents: String, Tracked(w): Tracked<&mut World>) -> (r: Result<(), IoError>)
            requires
                !old(w).check_mode, // [C04.nowrite]
                atomic_inv(*old(w)), // [C07.frame]
                !old(w).protected.contains(path.view()), // [C07.nonatomic]
                path.view() == lock_path(), // [C15.lock]
            ensures
                same_but_fs(*old(w), *final(w)), final(w).log == old(w).log,
                forall|p: Seq<char>| p != path.view() ==> (#[trigger] final(w).fs.dom().contains(p)) == old(w).fs.dom().contains(p),
                forall|p: Seq<char>| p != path.view() ==> (#[trigger] final(w).fs[p]) == old(w).fs[p],
                r.is_ok() ==> final(w).fs.dom().contains(path.view()) && final(w).fs[path.view()] == encode_utf8(contents@),
                r.is_ok() == !lock_write_failed(),
        { unimplemented!() }
    }
}
} // verus!
