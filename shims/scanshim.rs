// ===== shims/scanshim.rs — str / regex operations of the directive scan and of extract_reference (assumed std semantics) =====
verus! {

// ---- str helpers (uninterpreted std semantics) --------------------------------------------------------------------------
pub uninterp spec fn char_at(b: Seq<u8>, pos: int) -> char;                 // the character starting at a boundary
pub uninterp spec fn lines_rev(b: Seq<u8>) -> Seq<Seq<char>>;               // str::lines().rev(): lines of the text, last line first
pub uninterp spec fn trim_spec(s: Seq<char>) -> Seq<char>;                  // str::trim
pub uninterp spec fn lower_spec(s: Seq<char>) -> Seq<char>;                 // str::to_lowercase
// Regex::captures(text): None, or the capture groups (group 0 = whole match) each unmatched (None) or with its text
pub uninterp spec fn regex_groups(pat: int, s: Seq<char>) -> Option<Seq<Option<Seq<char>>>>;

// `s[pos..].chars().next()`
#[verifier::external_body]
pub fn str_first_char(s: &str, pos: usize) -> (r: Option<char>)
    requires pos <= s.spec_bytes().len(), is_boundary(s.spec_bytes(), pos as int)
    ensures
        r.is_none() == (pos == s.spec_bytes().len()),
        s.spec_bytes().len() <= usize::MAX,
        r.is_some() ==> r.unwrap() == char_at(s.spec_bytes(), pos as int) && pos + r.unwrap().len_utf8() <= s.spec_bytes().len()
            && is_boundary(s.spec_bytes(), pos + r.unwrap().len_utf8()),
{ unimplemented!() }
#[verifier::external_body]
pub fn str_lines_rev<'a>(s: &'a str) -> (r: Vec<&'a str>)
    ensures r@.len() == lines_rev(s.spec_bytes()).len(), forall|i: int| 0 <= i < r@.len() ==> (#[trigger] r@[i])@ == lines_rev(s.spec_bytes())[i]
{ unimplemented!() }
#[verifier::external_body]
pub fn str_trim<'a>(s: &'a str) -> (r: &'a str) ensures r@ == trim_spec(s@) { unimplemented!() }
#[verifier::external_body]
pub fn str_is_empty(s: &str) -> (r: bool) ensures r == (s@.len() == 0) { unimplemented!() }
#[verifier::external_body]
pub fn str_to_lowercase(s: &str) -> (r: String) ensures r@ == lower_spec(s@) { unimplemented!() }

#[verifier::external_body]
#[derive(Clone, Copy)]
pub struct Match<'t> { _p: &'t str }
impl<'t> Match<'t> {
    pub uninterp spec fn text(&self) -> Seq<char>;
    #[verifier::external_body]
    pub fn as_str(&self) -> (r: &'t str) ensures r@ == self.text() { unimplemented!() }
}
#[verifier::external_body]
pub struct Captures<'t> { _p: &'t str }
pub open spec fn group_view<'t>(g: Option<Match<'t>>) -> Option<Seq<char>> { if g.is_some() { Some(g.unwrap().text()) } else { None } }
impl<'t> Captures<'t> {
    pub uninterp spec fn groups(&self) -> Seq<Option<Seq<char>>>;
    // R12: `capture.iter()` collected (same order, unmatched groups are None)
    #[verifier::external_body]
    pub fn groups_vec(&self) -> (r: Vec<Option<Match<'t>>>)
        ensures r@.len() == self.groups().len(), forall|i: int| 0 <= i < r@.len() ==> group_view(#[trigger] r@[i]) == self.groups()[i]
    { unimplemented!() }
    // `capture[1]` (panics when the group did not participate)
    #[verifier::external_body]
    pub fn group_str(&self, i: usize) -> (r: &'t str)
        requires i < self.groups().len(), self.groups()[i as int].is_some()
        ensures r@ == self.groups()[i as int].unwrap()
    { unimplemented!() }
}
impl Regex {
    #[verifier::external_body]
    pub fn captures<'t>(&self, s: &'t str) -> (r: Option<Captures<'t>>)
        ensures r.is_some() == regex_groups(self.pat(), s@).is_some(), r.is_some() ==> r.unwrap().groups() == regex_groups(self.pat(), s@).unwrap()
    { unimplemented!() }
}

// ---- C14: what the directive scan must decide ----------------------------------------------------------------------------------
// some capture group, lower-cased and trimmed, is exactly the directive name
pub open spec fn group_hit(gs: Seq<Option<Seq<char>>>, name: Seq<char>, k: int) -> bool {
    exists|j: int| 0 <= j < k && (#[trigger] gs[j]).is_some() && trim_spec(lower_spec(gs[j].unwrap())) == name
}
// from line i (lines in reverse order) on: skip blank lines; the first non-blank line decides (no comment => false)
pub open spec fn scan_from(ls: Seq<Seq<char>>, i: int, pat: int, name: Seq<char>) -> bool
    decreases ls.len() - i
{
    if i < 0 || i >= ls.len() { false }
    else if trim_spec(ls[i]).len() == 0 { scan_from(ls, i + 1, pat, name) }
    else { match regex_groups(pat, trim_spec(ls[i])) { None => false, Some(gs) => group_hit(gs, name, gs.len() as int) } }
}
pub open spec fn char_end(b: Seq<u8>, pos: int) -> int { if pos >= b.len() { pos } else { pos + char_at(b, pos).len_utf8() } }
// the text up to and including the first character of the statement is split into lines; the statement's own line
// (index 0 in reverse order) is skipped; the nearest earlier non-blank line decides
pub open spec fn directive_spec(code: Seq<u8>, pos: int, pat: int, name: Seq<char>) -> bool {
    scan_from(lines_rev(code.subrange(0, char_end(code, pos))), 1, pat, name)
}

} // verus!
