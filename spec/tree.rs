// ===== spec/tree.rs — whole-tree quantities the drivers' contracts speak about =====
verus! {

pub open spec fn paths_of(files: Seq<CodeFile>) -> Seq<Seq<char>> { Seq::new(files.len(), |i: int| files[i].path@) }


pub open spec fn file_missing(fs: Map<Seq<char>, Seq<u8>>, cfg: Config, p: Seq<char>) -> int {
    if readable(p) { n_missing_all(found(fs[p], cfg)) } else { 0 }
}
pub open spec fn file_max(fs: Map<Seq<char>, Seq<u8>>, cfg: Config, p: Seq<char>) -> int {
    if readable(p) { max_ref(found(fs[p], cfg), found(fs[p], cfg).len() as int) } else { 0 }
}
// statements lacking a reference in the first k files (what --check counts)
pub open spec fn tree_missing(files: Seq<Seq<char>>, fs: Map<Seq<char>, Seq<u8>>, cfg: Config, k: int) -> int
    decreases k
{
    if k <= 0 { 0 } else { tree_missing(files, fs, cfg, k - 1) + file_missing(fs, cfg, files[k - 1]) }
}
// largest existing reference in the first k files
pub open spec fn tree_max(files: Seq<Seq<char>>, fs: Map<Seq<char>, Seq<u8>>, cfg: Config, k: int) -> int
    decreases k
{
    if k <= 0 { 0 } else {
        let m = tree_max(files, fs, cfg, k - 1);
        let f = file_max(fs, cfg, files[k - 1]);
        if f > m { f } else { m }
    }
}
pub proof fn lemma_tree_missing_nonneg(files: Seq<Seq<char>>, fs: Map<Seq<char>, Seq<u8>>, cfg: Config, k: int)
    ensures 0 <= tree_missing(files, fs, cfg, k)
    decreases k
{
    if k > 0 {
        lemma_tree_missing_nonneg(files, fs, cfg, k - 1);
        let p = files[k - 1];
        if readable(p) { lemma_n_missing_bounds(found(fs[p], cfg), found(fs[p], cfg).len() as int); }
    }
}
pub proof fn lemma_tree_missing_mono(files: Seq<Seq<char>>, fs: Map<Seq<char>, Seq<u8>>, cfg: Config, j: int, k: int)
    requires 0 <= j <= k
    ensures tree_missing(files, fs, cfg, j) <= tree_missing(files, fs, cfg, k)
    decreases k - j
{
    if j < k {
        lemma_tree_missing_mono(files, fs, cfg, j, k - 1);
        let p = files[k - 1];
        if readable(p) { lemma_n_missing_bounds(found(fs[p], cfg), found(fs[p], cfg).len() as int); }
    }
}
pub proof fn lemma_tree_max_bounds(files: Seq<Seq<char>>, fs: Map<Seq<char>, Seq<u8>>, cfg: Config, k: int)
    ensures 0 <= tree_max(files, fs, cfg, k) <= u32::MAX
    decreases k
{
    if k > 0 {
        lemma_tree_max_bounds(files, fs, cfg, k - 1);
        let p = files[k - 1];
        if readable(p) { lemma_max_ref_bounds(found(fs[p], cfg), found(fs[p], cfg).len() as int); }
    }
}
// per-file results of the passes, as sequences mirroring the driver's Vec
pub open spec fn count_results(files: Seq<Seq<char>>, fs: Map<Seq<char>, Seq<u8>>, cfg: Config, k: int) -> Seq<u32>
    decreases k
{
    if k <= 0 { Seq::empty() } else {
        let p = files[k - 1];
        if readable(p) { count_results(files, fs, cfg, k - 1).push(file_missing(fs, cfg, p) as u32) } else { count_results(files, fs, cfg, k - 1) }
    }
}
pub proof fn lemma_count_results_sum(files: Seq<Seq<char>>, fs: Map<Seq<char>, Seq<u8>>, cfg: Config, k: int)
    requires forall|i: int| 0 <= i < k ==> file_missing(fs, cfg, #[trigger] files[i]) <= u32::MAX
    ensures sum_u32(count_results(files, fs, cfg, k)) == tree_missing(files, fs, cfg, k)
    decreases k
{
    if k > 0 {
        lemma_count_results_sum(files, fs, cfg, k - 1);
        let p = files[k - 1];
        if readable(p) {
            lemma_n_missing_bounds(found(fs[p], cfg), found(fs[p], cfg).len() as int);
            let s = count_results(files, fs, cfg, k - 1).push(file_missing(fs, cfg, p) as u32);
            assert(s.drop_last() == count_results(files, fs, cfg, k - 1));
        }
    }
}
pub open spec fn nextid_results(files: Seq<Seq<char>>, fs: Map<Seq<char>, Seq<u8>>, cfg: Config, k: int) -> Seq<(u32, usize)>
    decreases k
{
    if k <= 0 { Seq::empty() } else {
        let p = files[k - 1];
        if readable(p) { nextid_results(files, fs, cfg, k - 1).push((file_max(fs, cfg, p) as u32, file_missing(fs, cfg, p) as usize)) }
        else { nextid_results(files, fs, cfg, k - 1) }
    }
}
pub proof fn lemma_nextid_results(files: Seq<Seq<char>>, fs: Map<Seq<char>, Seq<u8>>, cfg: Config, k: int)
    requires forall|i: int| 0 <= i < k ==> file_missing(fs, cfg, #[trigger] files[i]) <= usize::MAX
    ensures
        sum_missing(nextid_results(files, fs, cfg, k)) == tree_missing(files, fs, cfg, k),
        max_id(nextid_results(files, fs, cfg, k)) == tree_max(files, fs, cfg, k),
    decreases k
{
    if k > 0 {
        lemma_nextid_results(files, fs, cfg, k - 1);
        let p = files[k - 1];
        if readable(p) {
            lemma_n_missing_bounds(found(fs[p], cfg), found(fs[p], cfg).len() as int);
            lemma_max_ref_bounds(found(fs[p], cfg), found(fs[p], cfg).len() as int);
            let s = nextid_results(files, fs, cfg, k - 1).push((file_max(fs, cfg, p) as u32, file_missing(fs, cfg, p) as usize));
            assert(s.drop_last() == nextid_results(files, fs, cfg, k - 1));
        }
    }
}

} // verus!
verus! {
// ---- C01 at tree level: which IDs each replaced file received ------------------------------------------
pub open spec fn n_of(w: World, cfg: Config, p: Seq<char>) -> int { n_missing_all(found(w.orig[p], cfg)) }
pub open spec fn edited_with(w: World, cfg: Config, p: Seq<char>, first: int) -> Seq<u8> {
    edited(w.orig[p], found(w.orig[p], cfg), consec(first, n_of(w, cfg, p)))
}
// C01 (IDs only): every replaced file was given the range alloc[p] .. alloc[p]+n(p), all handed out by the counter since
// `start`; ranges of different files are disjoint
pub open spec fn alloc_inv(w: World, cfg: Config, start: int) -> bool {
    &&& forall|p: Seq<char>| #[trigger] w.alloc.dom().contains(p) ==>
            w.protected.contains(p) && n_of(w, cfg, p) > 0 && start <= w.alloc[p] && w.alloc[p] + n_of(w, cfg, p) <= w.counter
    &&& forall|p: Seq<char>, q: Seq<char>| #[trigger] w.alloc.dom().contains(p) && #[trigger] w.alloc.dom().contains(q) && p != q ==>
            w.alloc[p] + n_of(w, cfg, p) <= w.alloc[q] || w.alloc[q] + n_of(w, cfg, q) <= w.alloc[p]
}
// C03/C07 (content): a replaced file holds its original with exactly the tokens for its range spliced in; every other
// in-scope file is untouched.  Together with alloc_inv: the IDs present in the tree after the run are the disjoint ranges.
pub open spec fn content_inv(w: World, cfg: Config) -> bool {
    &&& forall|p: Seq<char>| #[trigger] w.alloc.dom().contains(p) ==> w.fs[p] == edited_with(w, cfg, p, w.alloc[p])
    &&& forall|p: Seq<char>| #[trigger] w.protected.contains(p) && !w.alloc.dom().contains(p) ==> w.fs[p] == w.orig[p]
}
pub open spec fn all_edited(w: World, cfg: Config, k: int) -> bool {
    forall|i: int| 0 <= i < k && readable(#[trigger] w.files[i]) ==>
        is_token_insertion(w.orig[w.files[i]], found(w.orig[w.files[i]], cfg), w.fs[w.files[i]])
}
}
verus! {
pub proof fn lemma_file_missing_zero(files: Seq<Seq<char>>, fs: Map<Seq<char>, Seq<u8>>, cfg: Config, k: int, i: int)
    requires 0 <= i < k, tree_missing(files, fs, cfg, k) == 0
    ensures file_missing(fs, cfg, files[i]) == 0
    decreases k
{
    lemma_tree_missing_nonneg(files, fs, cfg, k - 1);
    let p = files[k - 1];
    if readable(p) { lemma_n_missing_bounds(found(fs[p], cfg), found(fs[p], cfg).len() as int); }
    if i < k - 1 { lemma_file_missing_zero(files, fs, cfg, k - 1, i); }
}
// a tree in which nothing lacks a reference is already "completely edited"
pub proof fn lemma_all_edited_when_none_missing(w: World, cfg: Config)
    requires
        tree_missing(w.files, w.orig, cfg, w.files.len() as int) == 0,
        forall|i: int| 0 <= i < w.files.len() ==> w.fs[#[trigger] w.files[i]] == w.orig[w.files[i]],
    ensures all_edited(w, cfg, w.files.len() as int)
{
    assert forall|i: int| 0 <= i < w.files.len() && readable(#[trigger] w.files[i]) implies
        is_token_insertion(w.orig[w.files[i]], found(w.orig[w.files[i]], cfg), w.fs[w.files[i]]) by {
        lemma_file_missing_zero(w.files, w.orig, cfg, w.files.len() as int, i);
        let c = w.orig[w.files[i]];
        let es = found(c, cfg);
        lemma_edited_noop(c, es, Seq::<int>::empty());
        assert(c == edited(c, es, Seq::<int>::empty()));
    }
}
}
verus! {
// ---- bridge from generate_code's proved postconditions to the step contract of spec/history.rs (C02) ----------------
pub open spec fn id_written(w: World, cfg: Config, i: int) -> bool {
    exists|p: Seq<char>| #[trigger] w.alloc.dom().contains(p) && w.alloc[p] <= i < w.alloc[p] + n_of(w, cfg, p)
}
// [C02.history] with a lock value `cached`, generate_code's postconditions ([C01.unique]: alloc_inv and alloc[p] >= cached)
// give exactly the EditRun clause of step_ok: every ID written lies in [cached, final counter)
pub proof fn lemma_step_from_contract(w: World, cfg: Config, cached: int)
    requires
        alloc_inv(w, cfg, 1),
        forall|p: Seq<char>| #[trigger] w.alloc.dom().contains(p) ==> w.alloc[p] >= cached,
    ensures forall|i: int| id_written(w, cfg, i) ==> cached <= i < w.counter
{
    assert forall|i: int| id_written(w, cfg, i) implies cached <= i < w.counter by {
        let p = choose|p: Seq<char>| #[trigger] w.alloc.dom().contains(p) && w.alloc[p] <= i < w.alloc[p] + n_of(w, cfg, p);
        assert(w.alloc[p] + n_of(w, cfg, p) <= w.counter);
    }
}
}
verus! {
// ---- C05.where at tree level: what a --check pass reports, file by file, in discovery order ------------------------
pub open spec fn file_report(fs: Map<Seq<char>, Seq<u8>>, cfg: Config, p: Seq<char>) -> Seq<Event> {
    if readable(p) {
        report_lines(p, found(fs[p], cfg), found(fs[p], cfg).len() as int)
            .push(Event { tag: 6, strs: seq![p], nums: seq![n_missing_all(found(fs[p], cfg))] })
    } else {
        seq![Event { tag: 4, strs: seq![], nums: seq![] }]       // [ref: 4] Failed to read file
    }
}
pub open spec fn tree_report(files: Seq<Seq<char>>, fs: Map<Seq<char>, Seq<u8>>, cfg: Config, k: int) -> Seq<Event>
    decreases k
{
    if k <= 0 { Seq::empty() } else { tree_report(files, fs, cfg, k - 1) + file_report(fs, cfg, files[k - 1]) }
}
pub proof fn lemma_tree_report_step(base: Seq<Event>, files: Seq<Seq<char>>, fs: Map<Seq<char>, Seq<u8>>, cfg: Config, k: int)
    requires 0 < k
    ensures base + tree_report(files, fs, cfg, k) =~= (base + tree_report(files, fs, cfg, k - 1)) + file_report(fs, cfg, files[k - 1])
{
}
}
