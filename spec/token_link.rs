// ===== spec/token_link.rs — C12: what extract_reference computes (regex pattern 2 + u32 parse) IS the token rule =====
// Two assumptions about the dependencies, each exercised on every run by the bounded conformance run of C12
// (and A2 proved by the Kani harness kani/parse_u32 in the thorough tier):
verus! {

// A1 (regex crate, the literal pattern `^\[ref: ([0-9]{1,10})\]`): it matches exactly the texts that start with `[ref: `, then a run of
// 1..=10 ASCII digits (greedy, so the run is the maximal one), then `]`; group 1 is that run.
pub proof fn axiom_token_regex(s: Seq<char>)
    ensures ({
        let n = digit_run(s, 6, 11);
        let hit = s.len() >= 6 && s.subrange(0, 6) == ref_prefix() && 1 <= n <= 10 && 6 + n < s.len() && s[6 + n] == ']';
        &&& regex_groups(2, s).is_some() == hit
        &&& hit ==> regex_groups(2, s).unwrap().len() == 2 && regex_groups(2, s).unwrap()[1] == Some(s.subrange(6, 6 + n))
    })
{ admit(); }

// A2 (core::str::parse::<u32>, proved by kani/parse_u32 for exactly this input class): on 1..=10 ASCII digits it is the canonical
// decimal value, Ok iff the value fits u32.
pub proof fn axiom_parse_u32_digits(t: Seq<char>)
    requires 1 <= t.len() <= 10, forall|i: int| 0 <= i < t.len() ==> is_digit(#[trigger] t[i])
    ensures parse_u32_spec(encode_utf8(t)) == (if digits_value(t) <= u32::MAX { Some(digits_value(t) as u32) } else { None::<u32> })
{ admit(); }

// [C12.rule] the reference extract_reference reads from a literal is exactly what the token rule says
pub proof fn lemma_extract_is_token_rule(s: Seq<char>)
    ensures extract_spec(encode_utf8(s)) == token_rule(s)
{
    encode_utf8_decode_utf8(s);
    axiom_token_regex(s);
    axiom_token_pattern(s);
    let n = digit_run(s, 6, 11);
    if regex_groups(2, s).is_some() {
        let t = s.subrange(6, 6 + n);
        lemma_digit_run_bounds(s, 6, 11);
        assert forall|i: int| 0 <= i < t.len() implies is_digit(#[trigger] t[i]) by { assert(t[i] == s[6 + i]); }
        axiom_parse_u32_digits(t);
    }
}
// [C06.readback,C13.readback] a structured `ref = N` written by Breadlog is read back as N
pub proof fn lemma_structured_reads_back(id: u32)
    ensures parse_u32_spec(encode_utf8(dec(id as nat))) == Some(id)
{
    lemma_pow10_values();
    lemma_dec_props(id as nat, 10);
    axiom_parse_u32_digits(dec(id as nat));
}

} // verus!
