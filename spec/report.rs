// ===== spec/report.rs — what check mode reports for one file (C05) =====
verus! {

pub open spec fn report_of(path: Seq<char>, e: LogRefEntry) -> Seq<Event> {
    if e.reference.is_some() { Seq::empty() }
    else if !usable(e) { seq![Event { tag: 35, strs: seq![path], nums: seq![e.position.line as int, e.position.column as int] }] }
    else { seq![Event { tag: 5, strs: seq![path], nums: seq![e.position.line as int, e.position.column as int] }] }
}
// the [ref: 5] / [ref: 35] lines for the first k entries, in order
pub open spec fn report_lines(path: Seq<char>, es: Seq<LogRefEntry>, k: int) -> Seq<Event>
    decreases k
{
    if k <= 0 { Seq::empty() } else { report_lines(path, es, k - 1) + report_of(path, es[k - 1]) }
}
pub proof fn lemma_report_step(base: Seq<Event>, path: Seq<char>, es: Seq<LogRefEntry>, k: int)
    requires 0 < k
    ensures
        base + report_lines(path, es, k) =~= (base + report_lines(path, es, k - 1)) + report_of(path, es[k - 1]),
{
}

} // verus!
