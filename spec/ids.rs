// ===== spec/ids.rs — reductions over per-file results (C01, C05, C08) =====
verus! {

pub open spec fn max_id(s: Seq<(u32, usize)>) -> int
    decreases s.len()
{
    if s.len() == 0 { 0 } else { let m = max_id(s.drop_last()); if s.last().0 as int > m { s.last().0 as int } else { m } }
}
pub open spec fn sum_missing(s: Seq<(u32, usize)>) -> int
    decreases s.len()
{
    if s.len() == 0 { 0 } else { sum_missing(s.drop_last()) + s.last().1 as int }
}
pub proof fn lemma_sum_missing_mono(s: Seq<(u32, usize)>, i: int)
    requires 0 <= i <= s.len()
    ensures 0 <= sum_missing(s.take(i)) <= sum_missing(s)
    decreases s.len() - i
{
    if i < s.len() {
        lemma_sum_missing_mono(s, i + 1);
        assert(s.take(i + 1).drop_last() == s.take(i));
    } else {
        assert(s.take(i) == s);
    }
    lemma_sum_missing_nonneg(s.take(i));
}
pub proof fn lemma_sum_missing_nonneg(s: Seq<(u32, usize)>)
    ensures 0 <= sum_missing(s)
    decreases s.len()
{
    if s.len() > 0 { lemma_sum_missing_nonneg(s.drop_last()); }
}
pub proof fn lemma_max_id_bounds(s: Seq<(u32, usize)>)
    ensures 0 <= max_id(s) <= u32::MAX,
        forall|i: int| 0 <= i < s.len() ==> (#[trigger] s[i]).0 as int <= max_id(s)
    decreases s.len()
{
    if s.len() > 0 {
        lemma_max_id_bounds(s.drop_last());
        assert forall|i: int| 0 <= i < s.len() implies (#[trigger] s[i]).0 as int <= max_id(s) by {
            if i < s.len() - 1 { assert(s.drop_last()[i] == s[i]); }
        }
    }
}

pub open spec fn sum_u32(s: Seq<u32>) -> int
    decreases s.len()
{
    if s.len() == 0 { 0 } else { sum_u32(s.drop_last()) + s.last() as int }
}
pub proof fn lemma_sum_u32_mono(s: Seq<u32>, i: int)
    requires 0 <= i <= s.len()
    ensures 0 <= sum_u32(s.take(i)) <= sum_u32(s)
    decreases s.len() - i
{
    if i < s.len() {
        lemma_sum_u32_mono(s, i + 1);
        assert(s.take(i + 1).drop_last() == s.take(i));
    } else {
        assert(s.take(i) == s);
    }
    lemma_sum_u32_nonneg(s.take(i));
}
pub proof fn lemma_sum_u32_nonneg(s: Seq<u32>)
    ensures 0 <= sum_u32(s)
    decreases s.len()
{
    if s.len() > 0 { lemma_sum_u32_nonneg(s.drop_last()); }
}
pub proof fn lemma_sum_u32_zero(s: Seq<u32>)
    ensures sum_u32(s) == 0 <==> forall|i: int| 0 <= i < s.len() ==> s[i] == 0
    decreases s.len()
{
    if s.len() > 0 {
        lemma_sum_u32_zero(s.drop_last());
        lemma_sum_u32_nonneg(s.drop_last());
        if sum_u32(s) == 0 {
            assert forall|i: int| 0 <= i < s.len() implies s[i] == 0 by {
                if i < s.len() - 1 { assert(s.drop_last()[i] == s[i]); }
            }
        }
        if forall|i: int| 0 <= i < s.len() ==> s[i] == 0 {
            assert forall|i: int| 0 <= i < s.drop_last().len() implies s.drop_last()[i] == 0 by { assert(s.drop_last()[i] == s[i]); }
        }
    }
}

pub open spec fn sum_inserted(s: Seq<InsertReferencesResult>) -> int
    decreases s.len()
{
    if s.len() == 0 { 0 } else { sum_inserted(s.drop_last()) + s.last().num_inserted_references as int }
}
pub open spec fn any_failure(s: Seq<InsertReferencesResult>) -> bool
    decreases s.len()
{
    if s.len() == 0 { false } else { any_failure(s.drop_last()) || s.last().failure }
}
pub proof fn lemma_sum_inserted_mono(s: Seq<InsertReferencesResult>, i: int)
    requires 0 <= i <= s.len()
    ensures 0 <= sum_inserted(s.take(i)) <= sum_inserted(s)
    decreases s.len() - i
{
    if i < s.len() {
        lemma_sum_inserted_mono(s, i + 1);
        assert(s.take(i + 1).drop_last() == s.take(i));
    } else {
        assert(s.take(i) == s);
    }
    lemma_sum_inserted_nonneg(s.take(i));
}
pub proof fn lemma_sum_inserted_nonneg(s: Seq<InsertReferencesResult>)
    ensures 0 <= sum_inserted(s)
    decreases s.len()
{
    if s.len() > 0 { lemma_sum_inserted_nonneg(s.drop_last()); }
}

} // verus!
