// ===== spec/history.rs — C02 as an inductive invariant over histories, proved from the step contracts =====
// A lemma about the CONTRACTS (what this family offers for a whole-history property): if every edit run satisfies the
// step contract that generate_code is proved to satisfy ([C01.unique] with a lock: every new ID >= the lock value;
// [C01.nowrap]/alloc_inv: every new ID < the run's final counter; [C02.step]: the lock afterwards holds that counter),
// check runs change nothing ([C04.frame]) and developer edits do not touch the lock, then along any finite history the lock
// stays greater than every ID the tool has ever written — hence no ID is ever written twice.
verus! {

pub struct Hist { pub lock: int, pub written: Set<int> }   // lock value; IDs the tool has written so far (ever)

pub enum Step {
    DevEdit,                                   // arbitrary change to the sources; the lock file is kept
    CheckRun,                                  // --check
    EditRun { new_ids: Set<int>, counter: int },   // an edit run that wrote `new_ids` and ended with `counter` (however it ended)
}
// what the proved contracts give for one step
pub open spec fn step_ok(h: Hist, s: Step, h2: Hist) -> bool {
    match s {
        Step::DevEdit => h2 == h,
        Step::CheckRun => h2 == h,
        Step::EditRun { new_ids, counter } =>
            // [C01.unique] (lock in use): IDs start at the lock value; alloc_inv: every ID written is below the final counter
            (forall|i: int| new_ids.contains(i) ==> h.lock <= i < counter)
            // [C02.step]: the lock file afterwards holds the final counter (which never decreases: [C01.nowrap])
            && h2.lock == counter && counter >= h.lock
            && h2.written == h.written.union(new_ids),
    }
}
pub open spec fn lock_dominates(h: Hist) -> bool { forall|i: int| h.written.contains(i) ==> i < h.lock }

pub open spec fn run_ok(hs: Seq<Hist>, ss: Seq<Step>) -> bool {
    hs.len() == ss.len() + 1 && forall|k: int| 0 <= k < ss.len() ==> step_ok(#[trigger] hs[k], ss[k], hs[k + 1])
}
// [C02.history] the invariant holds after every step of every history
pub proof fn lemma_history(hs: Seq<Hist>, ss: Seq<Step>, k: int)
    requires run_ok(hs, ss), lock_dominates(hs[0]), 0 <= k <= ss.len()
    ensures lock_dominates(hs[k])
    decreases k
{
    if k > 0 {
        lemma_history(hs, ss, k - 1);
        assert(step_ok(hs[k - 1], ss[k - 1], hs[k]));
    }
}
// [C02.history] consequently an ID written by one edit run is never written again by a later one
pub proof fn lemma_never_twice(hs: Seq<Hist>, ss: Seq<Step>, a: int, b: int, id: int)
    requires
        run_ok(hs, ss), lock_dominates(hs[0]), 0 <= a < b < ss.len(),
        ss[a] is EditRun, ss[b] is EditRun,
        ss[a]->EditRun_new_ids.contains(id),
    ensures !ss[b]->EditRun_new_ids.contains(id)
{
    lemma_history(hs, ss, b);
    lemma_written_grows(hs, ss, a + 1, b);
    assert(step_ok(hs[a], ss[a], hs[a + 1]));
    assert(hs[a + 1].written.contains(id));
    assert(hs[b].written.contains(id));
    assert(step_ok(hs[b], ss[b], hs[b + 1]));
}
pub proof fn lemma_written_grows(hs: Seq<Hist>, ss: Seq<Step>, j: int, k: int)
    requires run_ok(hs, ss), 0 <= j <= k <= ss.len()
    ensures forall|i: int| hs[j].written.contains(i) ==> hs[k].written.contains(i)
    decreases k - j
{
    if j < k {
        lemma_written_grows(hs, ss, j, k - 1);
        assert(step_ok(hs[k - 1], ss[k - 1], hs[k]));
    }
}

} // verus!
