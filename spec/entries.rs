// ===== spec/entries.rs — the property statements as spec functions over LogRefEntry =====
verus! {

// A statement can take a reference unless it is a structured `ref` key whose value is unusable (C13).
pub open spec fn usable(e: LogRefEntry) -> bool {
    !(e.kind == LogRefKind::StructuredPreExisting && e.reference.is_none())
}
// "lacks a reference" in the sense of C05: what check counts and what edit rewrites.
pub open spec fn missing(e: LogRefEntry) -> bool {
    e.reference.is_none() && usable(e)
}
pub open spec fn n_missing(es: Seq<LogRefEntry>, k: int) -> int
    decreases k
{
    if k <= 0 { 0 } else { n_missing(es, k - 1) + if missing(es[k - 1]) { 1int } else { 0 } }
}
pub open spec fn n_missing_all(es: Seq<LogRefEntry>) -> int { n_missing(es, es.len() as int) }

pub proof fn lemma_n_missing_bounds(es: Seq<LogRefEntry>, k: int)
    requires 0 <= k
    ensures 0 <= n_missing(es, k) <= k
    decreases k
{
    if k > 0 { lemma_n_missing_bounds(es, k - 1); }
}
pub proof fn lemma_n_missing_mono(es: Seq<LogRefEntry>, j: int, k: int)
    requires 0 <= j <= k
    ensures n_missing(es, j) <= n_missing(es, k)
    decreases k - j
{
    if j < k { lemma_n_missing_mono(es, j, k - 1); }
}

// largest reference carried by a usable entry among the first k (0 if none)
pub open spec fn max_ref(es: Seq<LogRefEntry>, k: int) -> int
    decreases k
{
    if k <= 0 { 0 }
    else {
        let m = max_ref(es, k - 1);
        if usable(es[k - 1]) && es[k - 1].reference.is_some() && es[k - 1].reference.unwrap() as int > m {
            es[k - 1].reference.unwrap() as int
        } else { m }
    }
}
pub proof fn lemma_max_ref_bounds(es: Seq<LogRefEntry>, k: int)
    ensures 0 <= max_ref(es, k) <= u32::MAX
    decreases k
{
    if k > 0 { lemma_max_ref_bounds(es, k - 1); }
}
pub proof fn lemma_max_ref_dominates(es: Seq<LogRefEntry>, k: int, i: int)
    requires 0 <= i < k <= es.len(), usable(es[i]), es[i].reference.is_some()
    ensures es[i].reference.unwrap() as int <= max_ref(es, k)
    decreases k
{
    if i < k - 1 { lemma_max_ref_dominates(es, k - 1, i); }
}

// ---- the inserted token (C03, C12) -----------------------------------------
// `id` is the mathematical ID: a token for an ID outside u32 cannot be produced by the code, so a wrapped
// counter can never satisfy a postcondition stated with this function (C01: fail instead of wrapping).
pub open spec fn token_chars(e: LogRefEntry, id: int) -> Seq<char> {
    if e.insertion_prefix.is_none() && e.insertion_suffix.is_none() {
        seq!['[', 'r', 'e', 'f', ':', ' '] + dec(id as nat) + seq![']', ' ']
    } else {
        (if e.insertion_prefix.is_some() { e.insertion_prefix.unwrap()@ } else { Seq::<char>::empty() })
        + dec(id as nat)
        + (if e.insertion_suffix.is_some() { e.insertion_suffix.unwrap()@ } else { Seq::<char>::empty() })
    }
}
pub open spec fn token_bytes(e: LogRefEntry, id: int) -> Seq<u8> { encode_utf8(token_chars(e, id)) }

// ---- the splice (C03): what an edited file must look like --------------------------------
// position up to which the original has been copied after the first k entries
pub open spec fn cursor(es: Seq<LogRefEntry>, k: int) -> int
    decreases k
{
    if k <= 0 { 0 } else if missing(es[k - 1]) { es[k - 1].position.character as int } else { cursor(es, k - 1) }
}
// bytes produced for the first k entries when the j-th inserted token carries ids[j]
pub open spec fn out(c: Seq<u8>, es: Seq<LogRefEntry>, ids: Seq<int>, k: int) -> Seq<u8>
    decreases k
{
    if k <= 0 { Seq::empty() }
    else if missing(es[k - 1]) {
        out(c, es, ids, k - 1)
          + c.subrange(cursor(es, k - 1), es[k - 1].position.character as int)
          + token_bytes(es[k - 1], ids[n_missing(es, k - 1)])
    } else { out(c, es, ids, k - 1) }
}
pub open spec fn edited(c: Seq<u8>, es: Seq<LogRefEntry>, ids: Seq<int>) -> Seq<u8> {
    out(c, es, ids, es.len() as int) + c.subrange(cursor(es, es.len() as int), c.len() as int)
}
// C01: consecutive IDs starting at `first`
pub open spec fn consec(first: int, n: int) -> Seq<int> { Seq::new(n as nat, |j: int| first + j) }
// C03: the file is its original with one token per missing entry spliced in, whatever the IDs
pub open spec fn is_token_insertion(c: Seq<u8>, es: Seq<LogRefEntry>, d: Seq<u8>) -> bool {
    exists|ids: Seq<int>| ids.len() == n_missing_all(es) && d == #[trigger] edited(c, es, ids)
}
// insertion offsets are in range and non-decreasing (what find's spans give)
pub open spec fn positions_ok(c: Seq<u8>, es: Seq<LogRefEntry>) -> bool {
    forall|k: int| 0 <= k < es.len() && missing(#[trigger] es[k]) ==>
        cursor(es, k) <= es[k].position.character as int <= c.len()
}
pub proof fn lemma_ids_consec(ids: Seq<int>, first: int, n: int)
    requires ids.len() == n, forall|j: int| 0 <= j < ids.len() ==> ids[j] == first + j
    ensures ids =~= consec(first, n)
{
}
// `out` for the first k entries reads only ids[0 .. n_missing(k))
pub proof fn lemma_out_ids_prefix(c: Seq<u8>, es: Seq<LogRefEntry>, a: Seq<int>, b: Seq<int>, k: int)
    requires 0 <= k <= es.len(), n_missing(es, k) <= a.len(), n_missing(es, k) <= b.len(),
        forall|j: int| 0 <= j < n_missing(es, k) ==> a[j] == b[j],
    ensures out(c, es, a, k) == out(c, es, b, k)
    decreases k
{
    if k > 0 {
        lemma_n_missing_bounds(es, k - 1);
        lemma_out_ids_prefix(c, es, a, b, k - 1);
    }
}

pub proof fn lemma_no_missing_prefix(c: Seq<u8>, es: Seq<LogRefEntry>, ids: Seq<int>, k: int)
    requires 0 <= k <= es.len(), n_missing_all(es) == 0
    ensures n_missing(es, k) == 0, cursor(es, k) == 0, out(c, es, ids, k) == Seq::<u8>::empty()
    decreases k
{
    lemma_n_missing_mono(es, k, es.len() as int);
    lemma_n_missing_bounds(es, k);
    if k > 0 { lemma_no_missing_prefix(c, es, ids, k - 1); }
}
// a file without missing references is its own edit
pub proof fn lemma_edited_noop(c: Seq<u8>, es: Seq<LogRefEntry>, ids: Seq<int>)
    requires n_missing_all(es) == 0
    ensures edited(c, es, ids) == c
{
    lemma_no_missing_prefix(c, es, ids, es.len() as int);
    assert(c.subrange(0, c.len() as int) == c);
    assert(Seq::<u8>::empty() + c == c);
}

// Deleting exactly the inserted tokens gives back the original bytes (C03's own wording).
// erase(k) = the original prefix that `out(k)` stands for.
pub proof fn lemma_cursor_bounds(c: Seq<u8>, es: Seq<LogRefEntry>, k: int)
    requires positions_ok(c, es), 0 <= k <= es.len()
    ensures 0 <= cursor(es, k) <= c.len()
    decreases k
{
    if k > 0 {
        if missing(es[k - 1]) {
            lemma_cursor_bounds(c, es, k - 1);
        } else {
            lemma_cursor_bounds(c, es, k - 1);
        }
    }
}

// The sequence of "kept" segments of out(k), concatenated, is c[0..cursor(k)].
pub open spec fn kept(c: Seq<u8>, es: Seq<LogRefEntry>, k: int) -> Seq<u8>
    decreases k
{
    if k <= 0 { Seq::empty() }
    else if missing(es[k - 1]) {
        kept(c, es, k - 1) + c.subrange(cursor(es, k - 1), es[k - 1].position.character as int)
    } else { kept(c, es, k - 1) }
}
pub proof fn lemma_kept_is_prefix(c: Seq<u8>, es: Seq<LogRefEntry>, k: int)
    requires positions_ok(c, es), 0 <= k <= es.len()
    ensures kept(c, es, k) == c.subrange(0, cursor(es, k))
    decreases k
{
    if k <= 0 {
        assert(c.subrange(0, 0) == Seq::<u8>::empty());
    } else {
        lemma_kept_is_prefix(c, es, k - 1);
        lemma_cursor_bounds(c, es, k - 1);
        if missing(es[k - 1]) {
            let a = cursor(es, k - 1);
            let b = es[k - 1].position.character as int;
            assert(c.subrange(0, a) + c.subrange(a, b) == c.subrange(0, b));
        }
    }
}
// [C03.erase] the original = kept segments + tail: nothing of the original is dropped, duplicated or reordered.
pub proof fn lemma_erase_gives_original(c: Seq<u8>, es: Seq<LogRefEntry>)
    requires positions_ok(c, es)
    ensures kept(c, es, es.len() as int) + c.subrange(cursor(es, es.len() as int), c.len() as int) == c
{
    lemma_kept_is_prefix(c, es, es.len() as int);
    lemma_cursor_bounds(c, es, es.len() as int);
    let k = cursor(es, es.len() as int);
    assert(c.subrange(0, k) + c.subrange(k, c.len() as int) == c);
}

} // verus!
verus! {
// ---- positions produced by the parser (C03/C17): bounded by the span of the statement they belong to -----
pub proof fn lemma_cursor_bound(es: Seq<LogRefEntry>, k: int, bound: int)
    requires 0 <= k <= es.len(), 0 <= bound, forall|j: int| 0 <= j < k ==> (#[trigger] es[j]).position.character as int <= bound
    ensures 0 <= cursor(es, k) <= bound
    decreases k
{
    if k > 0 { lemma_cursor_bound(es, k - 1, bound); }
}
pub proof fn lemma_cursor_push(es: Seq<LogRefEntry>, e: LogRefEntry, k: int)
    requires 0 <= k <= es.len()
    ensures cursor(es.push(e), k) == cursor(es, k)
    decreases k
{
    if k > 0 {
        lemma_cursor_push(es, e, k - 1);
        assert(es.push(e)[k - 1] == es[k - 1]);
    }
}
// appending an entry whose position is at or after every earlier position (and within the file) keeps positions_ok
pub proof fn lemma_positions_push(c: Seq<u8>, es: Seq<LogRefEntry>, e: LogRefEntry, bound: int)
    requires
        positions_ok(c, es), 0 <= bound <= e.position.character as int <= c.len(),
        forall|j: int| 0 <= j < es.len() ==> (#[trigger] es[j]).position.character as int <= bound,
    ensures positions_ok(c, es.push(e))
{
    let es2 = es.push(e);
    assert forall|k: int| 0 <= k < es2.len() && missing(#[trigger] es2[k]) implies
        cursor(es2, k) <= es2[k].position.character as int <= c.len() by {
        lemma_cursor_push(es, e, k);
        if k < es.len() {
            assert(es2[k] == es[k]);
        } else {
            lemma_cursor_bound(es, k, bound);
        }
    }
}
}
