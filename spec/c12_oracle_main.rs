// ===== spec/c12_oracle_main.rs (+ spec/token.rs, assembled by contracts/c12.py) — C12: the token rule as a spec function, its executable twin (proved equal), and the
// lemma that every token Breadlog inserts satisfies it with the assigned number.  Verified AND compiled by Verus
// (`verus --compile`): the resulting binary is the oracle of the bounded-exhaustive conformance run. =====
use vstd::prelude::*;
use std::io::BufRead;
//@TOKEN@
// Unverified glue: one candidate message literal per input line -> `Some(n)` / `None` per output line.
fn main() {
    let stdin = std::io::stdin();
    let mut out = String::new();
    for line in stdin.lock().lines() {
        let line = line.unwrap();
        let v: Vec<char> = line.chars().collect();
        match exec_extract(&v) {
            Some(n) => { out.push_str("Some("); out.push_str(&n.to_string()); out.push_str(")\n"); }
            None => out.push_str("None\n"),
        }
    }
    print!("{}", out);
}
