// ===== spec/token.rs — C12: the token rule, its executable twin, and the inserted-token lemma (see spec/c12_oracle_main.rs) =====
verus! {

pub open spec fn is_digit(c: char) -> bool { '0' <= c && c <= '9' }
pub open spec fn digit_val(c: char) -> nat { (c as u32 - '0' as u32) as nat }
// value of a digit string, most significant digit first
pub open spec fn digits_value(s: Seq<char>) -> nat
    decreases s.len()
{
    if s.len() == 0 { 0 } else { digits_value(s.drop_last()) * 10 + digit_val(s.last()) }
}
// number of consecutive ASCII digits of s starting at i, capped at `cap`
pub open spec fn digit_run(s: Seq<char>, i: int, cap: int) -> int
    decreases cap
{
    if cap <= 0 || i < 0 || i >= s.len() || !is_digit(s[i]) { 0 } else { 1 + digit_run(s, i + 1, cap - 1) }
}
pub open spec fn ref_prefix() -> Seq<char> { seq!['[', 'r', 'e', 'f', ':', ' '] }

// THE RULE (C12): a message literal carries a reference exactly when it begins with `[ref: `, followed by 1-10 ASCII
// digits whose value is at most 4294967295, followed by `]`.
pub open spec fn token_rule(lit: Seq<char>) -> Option<u32> {
    if lit.len() >= 6 && lit.subrange(0, 6) == ref_prefix() {
        let n = digit_run(lit, 6, 11);
        if 1 <= n <= 10 && 6 + n < lit.len() && lit[6 + n] == ']' && digits_value(lit.subrange(6, 6 + n)) <= u32::MAX {
            Some(digits_value(lit.subrange(6, 6 + n)) as u32)
        } else { None }
    } else { None }
}

proof fn lemma_digit_run_bounds(s: Seq<char>, i: int, cap: int)
    requires 0 <= i, 0 <= cap
    ensures
        0 <= digit_run(s, i, cap) <= cap, i + digit_run(s, i, cap) <= s.len() || digit_run(s, i, cap) == 0,
        forall|k: int| i <= k < i + digit_run(s, i, cap) ==> is_digit(#[trigger] s[k]),
        digit_run(s, i, cap) < cap && i + digit_run(s, i, cap) < s.len() ==> !is_digit(s[i + digit_run(s, i, cap)]),
    decreases cap
{
    if cap <= 0 || i >= s.len() || !is_digit(s[i]) {
    } else {
        lemma_digit_run_bounds(s, i + 1, cap - 1);
    }
}

// ---- executable twin ------------------------------------------------------------------------------------------------
pub fn exec_extract(lit: &Vec<char>) -> (r: Option<u32>)
    ensures r == token_rule(lit@)
{
    let pre: [char; 6] = ['[', 'r', 'e', 'f', ':', ' '];
    if lit.len() < 6 { return None; }
    let mut i: usize = 0;
    while i < 6
        invariant 0 <= i <= 6, lit@.len() >= 6, pre@ == ref_prefix(), forall|k: int| 0 <= k < i ==> lit@[k] == ref_prefix()[k],
        decreases 6 - i
    {
        if lit[i] != pre[i] {
            proof { assert(lit@.subrange(0, 6)[i as int] != ref_prefix()[i as int]); }
            return None;
        }
        i += 1;
    }
    proof { assert(lit@.subrange(0, 6) =~= ref_prefix()); }
    let mut n: usize = 0;
    let mut value: u64 = 0;
    while n < 11 && 6 + n < lit.len() && lit[6 + n] >= '0' && lit[6 + n] <= '9'
        invariant
            0 <= n <= 11, 6 + n <= lit@.len(),
            forall|k: int| 6 <= k < 6 + n ==> is_digit(#[trigger] lit@[k]),
            value as nat == digits_value(lit@.subrange(6, 6 + n as int)),
            value < 100_000_000_000u64 || n >= 11,
            n <= 10 ==> value < pow10(n as nat),
            digit_run(lit@, 6, 11) == n + digit_run(lit@, 6 + n as int, 11 - n as int),
        decreases 11 - n
    {
        proof {
            let s1 = lit@.subrange(6, 6 + n as int + 1);
            assert(s1.drop_last() =~= lit@.subrange(6, 6 + n as int));
            assert(s1.last() == lit@[6 + n as int]);
            lemma_pow10_step(n as nat);
            lemma_pow10_le(n as nat);
        }
        let d = (lit[6 + n] as u32 - '0' as u32) as u64;
        if n < 11 && value < 10_000_000_000u64 {
            value = value * 10 + d;
        } else {
            // more than 11 digits cannot happen (n < 11); unreachable arithmetic guard
            value = value;
            proof { assert(false); }
        }
        n += 1;
    }
    proof {
        lemma_digit_run_bounds(lit@, 6 + n as int, 11 - n as int);
        if n < 11 && 6 + n < lit@.len() { assert(!is_digit(lit@[6 + n as int])); assert(digit_run(lit@, 6 + n as int, 11 - n as int) == 0); }
        if n >= 11 { assert(digit_run(lit@, 6 + n as int, 11 - n as int) == 0); }
        if 6 + n >= lit@.len() { assert(digit_run(lit@, 6 + n as int, 11 - n as int) == 0); }
    }
    if n < 1 || n > 10 { return None; }
    if 6 + n >= lit.len() { return None; }
    if lit[6 + n] != ']' { return None; }
    if value > 4294967295u64 { return None; }
    Some(value as u32)
}

pub open spec fn pow10(k: nat) -> nat decreases k { if k == 0 { 1 } else { 10 * pow10((k - 1) as nat) } }
proof fn lemma_pow10_step(k: nat) ensures pow10(k + 1) == 10 * pow10(k), pow10(k) >= 1 decreases k {
    if k > 0 { lemma_pow10_step((k - 1) as nat); }
}
proof fn lemma_pow10_le(k: nat) requires k <= 10 ensures pow10(k) <= 10000000000 {
    lemma_pow10_values();
    if k == 0 {} else if k == 1 {} else if k == 2 {} else if k == 3 {} else if k == 4 {} else if k == 5 {} else if k == 6 {} else if k == 7 {} else if k == 8 {} else if k == 9 {} else {}
}
proof fn lemma_pow10_values()
    ensures pow10(0) == 1, pow10(1) == 10, pow10(2) == 100, pow10(3) == 1000, pow10(4) == 10000, pow10(5) == 100000, pow10(6) == 1000000,
        pow10(7) == 10000000, pow10(8) == 100000000, pow10(9) == 1000000000, pow10(10) == 10000000000, pow10(11) == 100000000000,
{
    reveal_with_fuel(pow10, 12);
}

// ---- [C12.inserted] the token Breadlog writes is read back with the number it was given --------------------------
// canonical decimal rendering — the same definition as in shims/prelude.rs, which insertable_reference_string is
// proved against in unit `entry` ([C12.inserted] there: r@ == "[ref: " + dec(id) + "] ")
//@STANDALONE-BEGIN (the two definitions below are also in shims/prelude.rs; units that include the prelude drop this region)
pub open spec fn digit(d: nat) -> char { (('0' as u8) + d as u8) as char }
pub open spec fn dec(n: nat) -> Seq<char>
    decreases n
{
    if n < 10 { seq![digit(n)] } else { dec(n / 10).push(digit(n % 10)) }
}
//@STANDALONE-END
proof fn lemma_dec_props(n: nat, k: nat)
    requires n < pow10(k), k >= 1
    ensures
        1 <= dec(n).len() <= k,
        forall|i: int| 0 <= i < dec(n).len() ==> is_digit(#[trigger] dec(n)[i]),
        digits_value(dec(n)) == n,
    decreases n
{
    if n < 10 {
        assert(dec(n) =~= seq![digit(n)]);
        assert(dec(n).drop_last() =~= Seq::<char>::empty());
        assert(digits_value(dec(n).drop_last()) == 0);
    } else {
        lemma_pow10_step((k - 1) as nat);
        if k == 1 { assert(pow10(1) == 10) by { reveal_with_fuel(pow10, 2); } }
        assert(n / 10 < pow10((k - 1) as nat)) by {
            if k >= 2 { lemma_pow10_step((k - 2) as nat); }
        }
        lemma_dec_props(n / 10, (k - 1) as nat);
        let s = dec(n);
        assert(s.drop_last() =~= dec(n / 10));
        assert(s.last() == digit(n % 10));
        assert(digit_val(digit(n % 10)) == n % 10);
    }
}
pub proof fn lemma_digit_run_all(s: Seq<char>, i: int, m: int, cap: int)
    requires 0 <= i, 0 <= m <= cap, i + m <= s.len(), forall|k: int| i <= k < i + m ==> is_digit(#[trigger] s[k]),
        i + m < s.len() ==> !is_digit(s[i + m]) || m == cap,
        i + m == s.len() || !is_digit(s[i + m]) || m == cap,
    ensures digit_run(s, i, cap) == m
    decreases m
{
    if m > 0 { lemma_digit_run_all(s, i + 1, m - 1, cap - 1); }
}
pub proof fn lemma_inserted_token_reads_back(id: u32, rest: Seq<char>)
    ensures token_rule(ref_prefix() + dec(id as nat) + seq![']', ' '] + rest) == Some(id)
{
    lemma_pow10_values();
    lemma_dec_props(id as nat, 10);
    let d = dec(id as nat);
    let lit = ref_prefix() + d + seq![']', ' '] + rest;
    let n = d.len() as int;
    assert(lit.subrange(0, 6) =~= ref_prefix());
    assert(lit.subrange(6, 6 + n) =~= d);
    assert(lit[6 + n] == ']');
    assert forall|k: int| 6 <= k < 6 + n implies is_digit(#[trigger] lit[k]) by { assert(lit[k] == d[k - 6]); }
    lemma_digit_run_all(lit, 6, n, 11);
}

} // verus!

