// ===== spec/findspec.rs — what `find` must return, as a function of the parse tree (C11, C13, C14, C05.where) =====
verus! {

pub open spec fn text(inp: Seq<u8>, g: PairG) -> Seq<u8> { inp.subrange(g.start, g.end) }
pub open spec fn opt_view(o: Option<String>) -> Option<Seq<char>> { if o.is_some() { Some(o.unwrap()@) } else { None } }

// the part of a LogRefEntry the properties speak about (the stored macro name is unused)
pub struct EntryG { pub pos: int, pub reference: Option<u32>, pub kind: LogRefKind, pub prefix: Option<Seq<char>>, pub suffix: Option<Seq<char>> }
pub open spec fn view_entry(e: LogRefEntry) -> EntryG {
    EntryG { pos: e.position.character as int, reference: e.reference, kind: e.kind, prefix: opt_view(e.insertion_prefix), suffix: opt_view(e.insertion_suffix) }
}
pub open spec fn view_entries(es: Seq<LogRefEntry>) -> Seq<EntryG> { Seq::new(es.len(), |i: int| view_entry(es[i])) }

// ---- key-values of a macro_args node: a key opens a pair, a following value fills the last open pair -------------------
pub open spec fn kv_fold(acc: Seq<(PairG, Option<PairG>)>, cs: Seq<PairG>, k: int) -> Seq<(PairG, Option<PairG>)>
    decreases k
{
    if k <= 0 { acc } else {
        let prev = kv_fold(acc, cs, k - 1);
        let c = cs[k - 1];
        if c.rule == Rule::kvp_key { prev.push((c, None)) }
        else if c.rule == Rule::kvp_value && prev.len() > 0 { prev.update(prev.len() - 1, (prev.last().0, Some(c))) }
        else { prev }
    }
}
pub open spec fn args_kvs(cs: Seq<PairG>, k: int) -> Seq<(PairG, Option<PairG>)>
    decreases k
{
    if k <= 0 { Seq::empty() } else {
        let prev = args_kvs(cs, k - 1);
        let c = cs[k - 1];
        if c.rule == Rule::kvp_args { kv_fold(prev, c.children, c.children.len() as int) } else { prev }
    }
}
// the message: the value node of the (last) string literal among the arguments
pub open spec fn args_msg(cs: Seq<PairG>, k: int) -> Option<PairG>
    decreases k
{
    if k <= 0 { None } else {
        let prev = args_msg(cs, k - 1);
        let c = cs[k - 1];
        if c.rule == Rule::string_literal && c.children.len() > 0 { Some(c.children[0]) } else { prev }
    }
}
// C13: the FIRST key-value whose key is exactly `ref` and which has a value decides
pub open spec fn first_ref(kvs: Seq<(PairG, Option<PairG>)>, inp: Seq<u8>, from: int) -> Option<int>
    decreases kvs.len() - from
{
    if from < 0 || from >= kvs.len() { None }
    else if text(inp, kvs[from].0) == ref_key() && kvs[from].1.is_some() { Some(from) }
    else { first_ref(kvs, inp, from + 1) }
}
pub open spec fn ref_eq_prefix() -> Seq<char> { seq!['r', 'e', 'f', ' ', '=', ' '] }

// what one `log_macro` node contributes (None: nothing)
pub open spec fn node_entry(g: PairG, inp: Seq<u8>, cfg: Config) -> Option<EntryG> {
    if g.rule != Rule::log_macro || g.children.len() < 1 || g.children[0].rule != Rule::macro_name { None }
    // C14: an ignore directive before the line on which the statement starts skips it
    else if directive_before(inp, g.children[0].start, ignore_name()) { None }
    // C11: only macros whose written name is exactly a configured name or module::name
    else if !interest(decode_utf8(text(inp, g.children[0])), cfg.rust.log_macros@, cfg.rust.log_macros@.len() as int) { None }
    else if g.children.len() < 2 || g.children[1].rule != Rule::macro_args { None }
    else {
        let ma = g.children[1];
        let kvs = args_kvs(ma.children, ma.children.len() as int);
        let msg = args_msg(ma.children, ma.children.len() as int);
        // C14: no-kvp is evaluated at the start of the arguments and selects the message branch
        if cfg.rust.structured && !directive_before(inp, ma.start, no_kvp_name()) {
            match first_ref(kvs, inp, 0) {
                // C13.existing: value text parsed as u32, or unusable (None) — never a second reference
                Some(j) => Some(EntryG { pos: kvs[j].1.unwrap().start, reference: parse_u32_spec(text(inp, kvs[j].1.unwrap())),
                                         kind: LogRefKind::StructuredPreExisting, prefix: None, suffix: None }),
                // C13.new: `ref = N` at the first argument after any target, `, ` when other key-values follow, else `; `
                None => if ma.children.len() == 0 { None } else {
                    Some(EntryG { pos: ma.children[0].start, reference: None, kind: LogRefKind::StructuredNew,
                                  prefix: Some(ref_eq_prefix()), suffix: Some(if kvs.len() > 0 { seq![',', ' '] } else { seq![';', ' '] }) })
                },
            }
        } else {
            match msg {
                None => None,
                // C12: the reference is what the token rule reads at the start of the message literal
                Some(sv) => Some(EntryG { pos: sv.start, reference: extract_spec(text(inp, sv)), kind: LogRefKind::String, prefix: None, suffix: None }),
            }
        }
    }
}
pub open spec fn tree_entries(cs: Seq<PairG>, inp: Seq<u8>, cfg: Config, k: int) -> Seq<EntryG>
    decreases k
{
    if k <= 0 { Seq::empty() } else {
        let prev = tree_entries(cs, inp, cfg, k - 1);
        match node_entry(cs[k - 1], inp, cfg) { Some(e) => prev.push(e), None => prev }
    }
}

// ---- relation between the spans the code records and the nodes of the tree -------------------------------------------------
pub open spec fn span_is(s: Span, g: PairG, inp: Seq<u8>) -> bool { s.lo() == g.start && s.hi() == g.end && s.input() == inp }
pub open spec fn kv_match(v: Seq<(Span, Option<Span>)>, s: Seq<(PairG, Option<PairG>)>, inp: Seq<u8>) -> bool {
    &&& v.len() == s.len()
    &&& forall|i: int| 0 <= i < v.len() ==> span_is((#[trigger] v[i]).0, s[i].0, inp) && v[i].1.is_some() == s[i].1.is_some()
            && (v[i].1.is_some() ==> span_is(v[i].1.unwrap(), s[i].1.unwrap(), inp))
}
pub proof fn lemma_first_ref_from(kvs: Seq<(PairG, Option<PairG>)>, inp: Seq<u8>, k: int)
    requires 0 <= k <= kvs.len(), forall|i: int| 0 <= i < k ==> !(text(inp, (#[trigger] kvs[i]).0) == ref_key() && kvs[i].1.is_some())
    ensures first_ref(kvs, inp, 0) == first_ref(kvs, inp, k)
    decreases k
{
    if k > 0 {
        lemma_first_ref_from(kvs, inp, k - 1);
    }
}
// UTF-8 encoding is injective: two strs have the same text iff they have the same bytes
pub proof fn lemma_encode_inj()
    ensures forall|a: Seq<char>, b: Seq<char>| #[trigger] encode_utf8(a) == #[trigger] encode_utf8(b) ==> a == b
{
    assert forall|a: Seq<char>, b: Seq<char>| #[trigger] encode_utf8(a) == #[trigger] encode_utf8(b) implies a == b by {
        encode_utf8_decode_utf8(a);
        encode_utf8_decode_utf8(b);
    }
}
pub proof fn lemma_view_push(es: Seq<LogRefEntry>, e: LogRefEntry)
    ensures view_entries(es.push(e)) == view_entries(es).push(view_entry(e))
{
    assert(view_entries(es.push(e)) =~= view_entries(es).push(view_entry(e)));
}

} // verus!
verus! {
// ---- aspects of find's result, so that each property's obligation speaks only about what that property needs ----------------
pub enum Aspect {
    Where,      // C03/C05/C06/C11/C14(ignore): which statements yield an entry, where it sits, whether it lacks a usable reference
    Kind,       // C13/C14(no-kvp): message branch vs structured existing vs structured new
    RefString,  // C12: the reference read from a message literal
    RefKv,      // C13.existing: the reference read from a `ref` key-value (None = unusable)
    Affix,      // C13.new: `ref = ` and the `, ` / `; ` separator
}
pub open spec fn mask(e: EntryG, a: Aspect) -> EntryG {
    let blank = EntryG { pos: 0, reference: None, kind: LogRefKind::Unknown, prefix: None, suffix: None };
    match a {
        Aspect::Where => EntryG { pos: e.pos, reference: if e.reference.is_none() && e.kind != LogRefKind::StructuredPreExisting { None } else { Some(0u32) }, ..blank },
        Aspect::Kind => EntryG { kind: e.kind, ..blank },
        Aspect::RefString => EntryG { reference: if e.kind == LogRefKind::String { e.reference } else { None }, ..blank },
        Aspect::RefKv => EntryG { reference: if e.kind == LogRefKind::StructuredPreExisting { e.reference } else { None }, ..blank },
        Aspect::Affix => EntryG { prefix: e.prefix, suffix: e.suffix, ..blank },
    }
}
pub open spec fn mask_opt(o: Option<EntryG>, a: Aspect) -> Option<EntryG> { match o { Some(e) => Some(mask(e, a)), None => None } }
pub open spec fn tree_asp(cs: Seq<PairG>, inp: Seq<u8>, cfg: Config, k: int, a: Aspect) -> Seq<EntryG>
    decreases k
{
    if k <= 0 { Seq::empty() } else {
        let prev = tree_asp(cs, inp, cfg, k - 1, a);
        match mask_opt(node_entry(cs[k - 1], inp, cfg), a) { Some(e) => prev.push(e), None => prev }
    }
}
pub open spec fn view_asp(es: Seq<LogRefEntry>, a: Aspect) -> Seq<EntryG> { Seq::new(es.len(), |i: int| mask(view_entry(es[i]), a)) }
pub proof fn lemma_asp_push(es: Seq<LogRefEntry>, e: LogRefEntry, a: Aspect)
    ensures view_asp(es.push(e), a) == view_asp(es, a).push(mask(view_entry(e), a))
{
    assert(view_asp(es.push(e), a) =~= view_asp(es, a).push(mask(view_entry(e), a)));
}
}
